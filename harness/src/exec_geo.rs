//! Executor, part 2: quaternions, rotations, Euler angles, transforms, view and
//! projection constructors, angles, interpolation.  BaseFloat scalars only.
use crate::sc::Sc;
use crate::val::*;
use crate::{bin2a, bin4, bin4a};
use cgmath::prelude::*;
use cgmath::*;

// call `$body` with `$t` bound to the angle, whichever unit it was given in
macro_rules! with_ang {
    ($a:expr, $t:ident, $body:expr) => {
        match $a {
            Val::ARad($t) => { let $t = *$t; $body }
            Val::ADeg($t) => { let $t = *$t; $body }
            _ => return None,
        }
    };
}
fn opt<S: Sc>(o: Option<Val<S>>) -> Val<S> {
    match o { Some(v) => Val::OSome(Box::new(v)), None => Val::ONone }
}

macro_rules! rot_ops {
    ($fname:ident, $R:ident, $RT:ident, $V:ident, $P:ident) => {
        fn $fname<S: Sc + BaseFloat>(op: &str, f: &str, a: &[Val<S>]) -> Option<Val<S>> {
            use Val::*;
            Some(match (op, a) {
                ("rotate_vector", [$R(r), $V(v)]) => $V(r.rotate_vector(*v)),
                ("rotate_point", [$R(r), $P(p)]) => $P(r.rotate_point(*p)),
                ("rot_invert", [$R(r)]) => $R(Rotation::invert(r)),
                ("rot_one", [T(t)]) if t == stringify!($RT) => $R(<$RT<S> as One>::one()),
                ("rot_look_at", [T(t), $V(d), $V(u)]) if t == stringify!($RT) => $R(<$RT<S> as Rotation>::look_at(*d, *u)),
                ("between_vectors", [T(t), $V(x), $V(y)]) if t == stringify!($RT) => $R(<$RT<S> as Rotation>::between_vectors(*x, *y)),
                ("iter_product", [T(t), rest @ ..]) if t == stringify!($RT) => {
                    let mut xs: Vec<$RT<S>> = Vec::new();
                    for r in rest { if let $R(x) = r { xs.push(*x) } else { return None } }
                    $R(match f { "v" => xs.iter().cloned().product(), "r" => xs.iter().product(), _ => return None })
                }
                _ => return None,
            })
        }
    };
}
rot_ops!(rot_q, Q, Quaternion, V3, P3);
rot_ops!(rot_b3, B3, Basis3, V3, P3);
rot_ops!(rot_b2, B2, Basis2, V2, P2);

macro_rules! rot3_ctor {
    ($fname:ident, $R:ident, $RT:ident) => {
        fn $fname<S: Sc + BaseFloat>(op: &str, _f: &str, a: &[Val<S>]) -> Option<Val<S>> {
            use Val::*;
            Some(match (op, a) {
                ("from_axis_angle", [T(t), V3(ax), an]) if t == stringify!($RT) => $R(with_ang!(an, th, <$RT<S> as Rotation3>::from_axis_angle(*ax, th))),
                ("from_angle_x", [T(t), an]) if t == stringify!($RT) => $R(with_ang!(an, th, <$RT<S> as Rotation3>::from_angle_x(th))),
                ("from_angle_y", [T(t), an]) if t == stringify!($RT) => $R(with_ang!(an, th, <$RT<S> as Rotation3>::from_angle_y(th))),
                ("from_angle_z", [T(t), an]) if t == stringify!($RT) => $R(with_ang!(an, th, <$RT<S> as Rotation3>::from_angle_z(th))),
                ("from_euler", [T(t), ERad(e)]) if t == stringify!($RT) => $R(<$RT<S>>::from(*e)),
                ("from_euler", [T(t), EDeg(e)]) if t == stringify!($RT) => $R(<$RT<S>>::from(*e)),
                _ => return None,
            })
        }
    };
}
rot3_ctor!(ctor_q, Q, Quaternion);
rot3_ctor!(ctor_b3, B3, Basis3);
// Matrix3/Matrix4 have inherent constructors of the same names
macro_rules! mat_ctor {
    ($fname:ident, $M:ident, $MT:ident) => {
        fn $fname<S: Sc + BaseFloat>(op: &str, _f: &str, a: &[Val<S>]) -> Option<Val<S>> {
            use Val::*;
            Some(match (op, a) {
                ("from_axis_angle", [T(t), V3(ax), an]) if t == stringify!($MT) => $M(with_ang!(an, th, $MT::from_axis_angle(*ax, th))),
                ("from_angle_x", [T(t), an]) if t == stringify!($MT) => $M(with_ang!(an, th, $MT::from_angle_x(th))),
                ("from_angle_y", [T(t), an]) if t == stringify!($MT) => $M(with_ang!(an, th, $MT::from_angle_y(th))),
                ("from_angle_z", [T(t), an]) if t == stringify!($MT) => $M(with_ang!(an, th, $MT::from_angle_z(th))),
                ("from_euler", [T(t), ERad(e)]) if t == stringify!($MT) => $M(<$MT<S>>::from(*e)),
                ("from_euler", [T(t), EDeg(e)]) if t == stringify!($MT) => $M(<$MT<S>>::from(*e)),
                _ => return None,
            })
        }
    };
}
mat_ctor!(ctor_m3, M3, Matrix3);
mat_ctor!(ctor_m4, M4, Matrix4);

// metric ops for InnerSpace types
macro_rules! metric_ops {
    ($fname:ident, $V:ident) => {
        fn $fname<S: Sc + BaseFloat>(op: &str, _f: &str, a: &[Val<S>]) -> Option<Val<S>> {
            use Val::*;
            Some(match (op, a) {
                ("magnitude", [$V(x)]) => N(x.magnitude()),
                ("normalize", [$V(x)]) => $V(x.normalize()),
                ("normalize_to", [$V(x), N(m)]) => $V(x.normalize_to(*m)),
                ("distance", [$V(x), $V(y)]) => N(x.distance(*y)),
                ("angle", [$V(x), $V(y)]) => ARad(x.angle(*y)),
                _ => return None,
            })
        }
    };
}
metric_ops!(metric_v1, V1);
metric_ops!(metric_v2, V2);
metric_ops!(metric_v3, V3);
metric_ops!(metric_v4, V4);
metric_ops!(metric_q, Q);

// Transform ops for the five implementations
macro_rules! tf_ops {
    ($fname:ident, $X:ident, $XT:ty, $P:ident, $PT:ident, $V:ident, $tag:expr) => {
        fn $fname<S: Sc + BaseFloat>(op: &str, f: &str, a: &[Val<S>]) -> Option<Val<S>> {
            use Val::*;
            type X<S> = $XT;
            Some(match (op, a) {
                ("transform_point", [$X(x), $P(p)]) => $P(<X<S> as Transform<$PT<S>>>::transform_point(x, *p)),
                ("transform_vector", [$X(x), $V(v)]) => $V(<X<S> as Transform<$PT<S>>>::transform_vector(x, *v)),
                ("inverse_transform_vector", [$X(x), $V(v)]) => opt(<X<S> as Transform<$PT<S>>>::inverse_transform_vector(x, *v).map($V)),
                ("inverse_transform", [T(t), $X(x)]) if t == $tag => opt(<X<S> as Transform<$PT<S>>>::inverse_transform(x).map($X)),
                ("concat", [T(t), $X(x), $X(y)]) if t == $tag => $X(match f {
                    "m" => <X<S> as Transform<$PT<S>>>::concat(x, y),
                    "self" => { let mut t = *x; <X<S> as Transform<$PT<S>>>::concat_self(&mut t, y); t }
                    _ => return None,
                }),
                ("tf_one", [T(t)]) if t == $tag => $X(<X<S> as One>::one()),
                ("tf_look_at", [T(t), $P(e), $P(c), $V(u)]) if t == $tag => $X(match f {
                    #[allow(deprecated)]
                    "dep" => <X<S> as Transform<$PT<S>>>::look_at(*e, *c, *u),
                    "rh" => <X<S> as Transform<$PT<S>>>::look_at_rh(*e, *c, *u),
                    "lh" => <X<S> as Transform<$PT<S>>>::look_at_lh(*e, *c, *u),
                    _ => return None,
                }),
                _ => return None,
            })
        }
    };
}
tf_ops!(tf_m3_2, M3, Matrix3<S>, P2, Point2, V2, "Matrix3_2");
tf_ops!(tf_m3_3, M3, Matrix3<S>, P3, Point3, V3, "Matrix3_3");
tf_ops!(tf_m4, M4, Matrix4<S>, P3, Point3, V3, "Matrix4");
tf_ops!(tf_dq, DQ, DecQ<S>, P3, Point3, V3, "DecQ");
tf_ops!(tf_d3, D3, Dec3<S>, P3, Point3, V3, "Dec3");
tf_ops!(tf_d2, D2, Dec2<S>, P2, Point2, V2, "Dec2");

macro_rules! angle_ops {
    ($fname:ident, $A:ident, $AT:ident, $tag:expr) => {
        fn $fname<S: Sc + BaseFloat>(op: &str, f: &str, a: &[Val<S>]) -> Option<Val<S>> {
            use Val::*;
            Some(match (op, a) {
                ("add", [$A(x), $A(y)]) => $A(bin4a!(f, *x, *y, +, +=)),
                ("sub", [$A(x), $A(y)]) => $A(bin4a!(f, *x, *y, -, -=)),
                ("rem", [$A(x), $A(y)]) => $A(bin4a!(f, *x, *y, %, %=)),
                ("div_aa", [$A(x), $A(y)]) => N(bin4!(f, *x, *y, /)),
                ("neg", [$A(x)]) => $A(match f { "v" => -*x, "r" => -x, _ => return None }),
                ("mul_s", [$A(x), N(k)]) => $A(bin2a!(f, *x, *k, *, *=)),
                ("div_s", [$A(x), N(k)]) => $A(bin2a!(f, *x, *k, /, /=)),
                ("normalize_ang", [$A(x)]) => $A(x.normalize()),
                ("normalize_signed", [$A(x)]) => $A(x.normalize_signed()),
                ("opposite", [$A(x)]) => $A(x.opposite()),
                ("bisect", [$A(x), $A(y)]) => $A(x.bisect(*y)),
                ("full_turn", [T(t)]) if t == $tag => $A(<$AT<S> as Angle>::full_turn()),
                ("turn_div", [T(t), I(k)]) if t == $tag => $A(match k {
                    2 => <$AT<S> as Angle>::turn_div_2(), 3 => <$AT<S> as Angle>::turn_div_3(),
                    4 => <$AT<S> as Angle>::turn_div_4(), 6 => <$AT<S> as Angle>::turn_div_6(), _ => return None }),
                ("ang_zero", [T(t)]) if t == $tag => $A(<$AT<S> as Zero>::zero()),
                ("sin", [$A(x)]) => N(Angle::sin(*x)),
                ("cos", [$A(x)]) => N(Angle::cos(*x)),
                ("tan", [$A(x)]) => N(Angle::tan(*x)),
                ("sin_cos", [$A(x)]) => { let (s, c) = Angle::sin_cos(*x); Tup(vec![N(s), N(c)]) }
                ("csc", [$A(x)]) => N(Angle::csc(*x)),
                ("sec", [$A(x)]) => N(Angle::sec(*x)),
                ("cot", [$A(x)]) => N(Angle::cot(*x)),
                ("asin", [T(t), N(v)]) if t == $tag => $A(<$AT<S> as Angle>::asin(*v)),
                ("acos", [T(t), N(v)]) if t == $tag => $A(<$AT<S> as Angle>::acos(*v)),
                ("atan", [T(t), N(v)]) if t == $tag => $A(<$AT<S> as Angle>::atan(*v)),
                ("atan2", [T(t), N(y), N(x)]) if t == $tag => $A(<$AT<S> as Angle>::atan2(*y, *x)),
                ("iter_sum", [T(t), rest @ ..]) if t == $tag => {
                    let mut xs: Vec<$AT<S>> = Vec::new();
                    for r in rest { if let $A(x) = r { xs.push(*x) } else { return None } }
                    $A(match f { "v" => xs.iter().cloned().sum(), "r" => xs.iter().sum(), _ => return None })
                }
                _ => return None,
            })
        }
    };
}
angle_ops!(ang_rad, ARad, Rad, "Rad");
angle_ops!(ang_deg, ADeg, Deg, "Deg");

pub fn exec_flt_geo<S: Sc + BaseFloat>(op: &str, f: &str, a: &[Val<S>]) -> Option<Val<S>> {
    use Val::*;
    macro_rules! try_all { ($($g:ident),+) => { $( if let Some(r) = $g(op, f, a) { return Some(r); } )+ } }
    try_all!(rot_q, rot_b3, rot_b2, ctor_q, ctor_b3, ctor_m3, ctor_m4, metric_v1, metric_v2, metric_v3, metric_v4, metric_q,
             tf_m3_2, tf_m3_3, tf_m4, tf_dq, tf_d3, tf_d2, ang_rad, ang_deg);
    Some(match (op, a) {
        ("distance", [P1(x), P1(y)]) => N(x.distance(*y)),
        ("distance", [P2(x), P2(y)]) => N(x.distance(*y)),
        ("distance", [P3(x), P3(y)]) => N(x.distance(*y)),
        // ----- quaternion algebra
        ("add", [Q(x), Q(y)]) => Q(bin4a!(f, *x, *y, +, +=)),
        ("sub", [Q(x), Q(y)]) => Q(bin4a!(f, *x, *y, -, -=)),
        ("neg", [Q(x)]) => Q(match f { "v" => -*x, "r" => -x, _ => return None }),
        ("mul_s", [Q(x), N(k)]) => Q(bin2a!(f, *x, *k, *, *=)),
        ("div_s", [Q(x), N(k)]) => Q(bin2a!(f, *x, *k, /, /=)),
        ("rem_s", [Q(x), N(k)]) => Q(bin2a!(f, *x, *k, %, %=)),
        ("mul", [Q(x), Q(y)]) => Q(bin4!(f, *x, *y, *)),
        ("mul", [Q(x), V3(v)]) => V3(bin4!(f, *x, *v, *)),
        ("mul", [B3(x), B3(y)]) => B3(bin4!(f, *x, *y, *)),
        ("mul", [B2(x), B2(y)]) => B2(bin4!(f, *x, *y, *)),
        ("mul", [DQ(x), DQ(y)]) => DQ(*x * *y),
        ("mul", [D3(x), D3(y)]) => D3(*x * *y),
        ("mul", [D2(x), D2(y)]) => D2(*x * *y),
        ("dot", [Q(x), Q(y)]) => N(match f { "m" => x.dot(*y), "free" => cgmath::dot(*x, *y), _ => return None }),
        ("mag2", [Q(x)]) => N(x.magnitude2()),
        ("distance2", [Q(x), Q(y)]) => N(x.distance2(*y)),
        ("conjugate", [Q(x)]) => Q(x.conjugate()),
        ("lerp", [Q(x), Q(y), N(t)]) => Q(x.lerp(*y, *t)),
        ("nlerp", [Q(x), Q(y), N(t)]) => Q(x.nlerp(*y, *t)),
        ("slerp", [Q(x), Q(y), N(t)]) => Q(x.slerp(*y, *t)),
        ("one", [T(t)]) if t == "Quaternion" => Q(Quaternion::one()),
        ("zero", [T(t)]) if t == "Quaternion" => Q(Quaternion::zero()),
        ("iter_sum", [T(t), rest @ ..]) if t == "Quaternion" => {
            let mut xs: Vec<Quaternion<S>> = Vec::new();
            for r in rest { if let Q(x) = r { xs.push(*x) } else { return None } }
            Q(match f { "v" => xs.iter().cloned().sum(), "r" => xs.iter().sum(), _ => return None })
        }
        // ----- conversions between rotation representations
        ("basis3_from_quat", [Q(q)]) => B3(match f { "from" => Basis3::from(*q), _ => Basis3::from_quaternion(q) }),
        ("quat_from_mat3", [M3(m)]) => Q(Quaternion::from(*m)),
        ("quat_from_basis3", [B3(b)]) => Q(Quaternion::from(*b)),
        ("mat_from_basis", [B3(b)]) => M3(match f { "asref" => *AsRef::<Matrix3<S>>::as_ref(b), _ => Matrix3::from(*b) }),
        ("mat_from_basis", [B2(b)]) => M2(match f { "asref" => *AsRef::<Matrix2<S>>::as_ref(b), _ => Matrix2::from(*b) }),
        ("from_angle", [T(t), an]) if t == "Matrix2" => M2(with_ang!(an, th, Matrix2::from_angle(th))),
        ("from_angle", [T(t), an]) if t == "Basis2" => B2(with_ang!(an, th, <Basis2<S> as Rotation2>::from_angle(th))),
        ("euler_from_quat", [Q(q)]) => ERad(Euler::from(*q)),
        ("euler_new", [ARad(x), ARad(y), ARad(z)]) => ERad(Euler::new(*x, *y, *z)),
        ("euler_new", [ADeg(x), ADeg(y), ADeg(z)]) => EDeg(Euler::new(*x, *y, *z)),
        // (the mint::EulerAngles conversions need `A: From<S> + Into<S>`, which neither Rad nor Deg provides: not callable with cgmath's own angles)
        // Matrix::as_ptr / as_mut_ptr (trait methods, float matrices)
        ("mat_ptr_read", [M2(m)]) => { let p = Matrix::as_ptr(m); Tup((0..4).map(|i| N(unsafe { *p.add(i) })).collect()) }
        ("mat_ptr_read", [M3(m)]) => { let p = Matrix::as_ptr(m); Tup((0..9).map(|i| N(unsafe { *p.add(i) })).collect()) }
        ("mat_ptr_read", [M4(m)]) => { let p = Matrix::as_ptr(m); Tup((0..16).map(|i| N(unsafe { *p.add(i) })).collect()) }
        ("mat_ptr_write", [M2(m), I(i), N(s)]) => { let mut t = *m; if *i < 0 || *i >= 4 { panic!("index out of range") } let p = Matrix::as_mut_ptr(&mut t); unsafe { *p.add(*i as usize) = *s; } M2(t) }
        ("mat_ptr_write", [M3(m), I(i), N(s)]) => { let mut t = *m; if *i < 0 || *i >= 9 { panic!("index out of range") } let p = Matrix::as_mut_ptr(&mut t); unsafe { *p.add(*i as usize) = *s; } M3(t) }
        ("mat_ptr_write", [M4(m), I(i), N(s)]) => { let mut t = *m; if *i < 0 || *i >= 16 { panic!("index out of range") } let p = Matrix::as_mut_ptr(&mut t); unsafe { *p.add(*i as usize) = *s; } M4(t) }
        ("to_deg", [ARad(x)]) => ADeg(cgmath::Deg::from(*x)),
        ("to_rad", [ADeg(x)]) => ARad(cgmath::Rad::from(*x)),
        // ----- arcs
        ("from_arc", [V3(s), V3(d), fb]) => Q(Quaternion::from_arc(*s, *d, match fb { ONone => None, OSome(b) => match &**b { V3(v) => Some(*v), _ => return None }, _ => return None })),
        // ----- view constructors
        ("look_at2", [T(t), V2(d), V2(u)]) if t == "Matrix2" => M2(Matrix2::look_at(*d, *u)),
        ("look_at_stable", [T(t), V2(d), B(fl)]) if t == "Matrix2" => M2(Matrix2::look_at_stable(*d, *fl)),
        ("look_at_stable", [T(t), V2(d), B(fl)]) if t == "Basis2" => B2(Basis2::look_at_stable(*d, *fl)),
        ("mat3_look_to", [V3(d), V3(u)]) => M3(match f {
            "lh" => Matrix3::look_to_lh(*d, *u), "rh" => Matrix3::look_to_rh(*d, *u),
            #[allow(deprecated)] "dep" => Matrix3::look_at(*d, *u), _ => return None }),
        ("mat4_look_to", [P3(e), V3(d), V3(u)]) => M4(match f {
            "lh" => Matrix4::look_to_lh(*e, *d, *u), "rh" => Matrix4::look_to_rh(*e, *d, *u),
            #[allow(deprecated)] "dep" => Matrix4::look_at_dir(*e, *d, *u), _ => return None }),
        ("mat4_look_at", [P3(e), P3(c), V3(u)]) => M4(match f {
            "lh" => Matrix4::look_at_lh(*e, *c, *u), "rh" => Matrix4::look_at_rh(*e, *c, *u),
            #[allow(deprecated)] "dep" => Matrix4::look_at(*e, *c, *u), _ => return None }),
        // ----- Decomposed
        ("dec_new", [N(s), Q(r), V3(d)]) => DQ(Decomposed { scale: *s, rot: *r, disp: *d }),
        ("dec_new", [N(s), B3(r), V3(d)]) => D3(Decomposed { scale: *s, rot: *r, disp: *d }),
        ("dec_new", [N(s), B2(r), V2(d)]) => D2(Decomposed { scale: *s, rot: *r, disp: *d }),
        ("mat_from_dec", [DQ(d)]) => M4(Matrix4::from(*d)),
        ("mat_from_dec", [D3(d)]) => M4(Matrix4::from(*d)),
        ("mat_from_dec", [D2(d)]) => M3(Matrix3::from(*d)),
        // ----- projections
        ("ortho", [N(l), N(r), N(b), N(t), N(n), N(fa)]) => M4(match f {
            "struct" => Matrix4::from(cgmath::Ortho { left: *l, right: *r, bottom: *b, top: *t, near: *n, far: *fa }),
            _ => cgmath::ortho(*l, *r, *b, *t, *n, *fa) }),
        ("frustum", [N(l), N(r), N(b), N(t), N(n), N(fa)]) => M4(match f {
            "struct" => Matrix4::from(cgmath::Perspective { left: *l, right: *r, bottom: *b, top: *t, near: *n, far: *fa }),
            _ => cgmath::frustum(*l, *r, *b, *t, *n, *fa) }),
        ("perspective", [an, N(asp), N(n), N(fa)]) => M4(match (f, an) {
            ("struct", ARad(th)) => Matrix4::from(cgmath::PerspectiveFov { fovy: *th, aspect: *asp, near: *n, far: *fa }),
            ("struct", ADeg(th)) => Matrix4::from(cgmath::PerspectiveFov { fovy: (*th).into(), aspect: *asp, near: *n, far: *fa }),
            _ => with_ang!(an, th, cgmath::perspective(th, *asp, *n, *fa)) }),
        ("planar", [an, N(asp), N(h), N(n), N(fa)]) => M4(match (f, an) {
            ("struct", ARad(th)) => Matrix4::from(cgmath::PlanarFov { fovy: *th, aspect: *asp, height: *h, near: *n, far: *fa }),
            ("struct", ADeg(th)) => Matrix4::from(cgmath::PlanarFov { fovy: (*th).into(), aspect: *asp, height: *h, near: *n, far: *fa }),
            _ => with_ang!(an, th, cgmath::planar(th, *asp, *h, *n, *fa)) }),
        ("to_perspective", [an, N(asp), N(n), N(fa)]) => {
            let th: cgmath::Rad<S> = with_ang!(an, th, th.into());
            PPersp(cgmath::PerspectiveFov { fovy: th, aspect: *asp, near: *n, far: *fa }.to_perspective())
        }
        _ => return None,
    })
}
