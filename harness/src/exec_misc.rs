//! Executor, part 3: views and layout (C16), approximate equality and predicates (C18),
//! numeric cast (C19).  (serde, C20, is in exec_serde.rs.)
use crate::sc::Sc;
use crate::val::*;
use cgmath::prelude::*;
use cgmath::*;

fn tup<S: Sc>(xs: Vec<S>) -> Val<S> { Val::Tup(xs.into_iter().map(Val::N).collect()) }
fn idx(i: i64) -> usize { if i < 0 { usize::MAX } else { i as usize } }
fn scalars<S: Sc>(a: &[Val<S>]) -> Option<Vec<S>> {
    let mut v = Vec::new();
    for x in a { if let Val::N(s) = x { v.push(*s) } else { return None } }
    Some(v)
}

// ---------------------------------------------------------------- C16: arrays (vectors and points)
macro_rules! arr_views {
    ($fname:ident, $X:ident, $XT:ident, $n:tt, ($($f:ident),+), $tuple:ty, $mint:tt) => {
        fn $fname<S: Sc>(op: &str, f: &str, a: &[Val<S>]) -> Option<Val<S>> {
            use Val::*;
            Some(match (op, a) {
                ("view_read", [$X(x)]) => {
                    let x = *x;
                    match f {
                        "fields" => tup(vec![$(x.$f),+]),
                        "index" => tup((0..$n).map(|i| x[i]).collect()),
                        "array_into" => { let r: [S; $n] = x.into(); tup(r.to_vec()) }
                        "array_ref" => { let r: &[S; $n] = x.as_ref(); tup(r.to_vec()) }
                        "tuple_into" => { let r: $tuple = x.into(); let ($($f),+,) = r; tup(vec![$($f),+]) }
                        "tuple_ref" => { let r: &$tuple = x.as_ref(); let ($($f),+,) = *r; tup(vec![$($f),+]) }
                        "range_full" => tup(x[..].to_vec()),
                        "range_to_from" => { let mut v = x[..1].to_vec(); v.extend_from_slice(&x[1..]); tup(v) }
                        "range" => tup(x[0..$n].to_vec()),
                        "ptr" => { let p = Array::as_ptr(&x); tup((0..$n).map(|i| unsafe { *p.add(i) }).collect()) }
                        "conv" => arr_views!(@conv $n, x),
                        "mint" => arr_views!(@mint_read $mint, $XT, x, $n),
                        _ => return None,
                    }
                }
                ("view_from", [T(ty), T(view), rest @ ..]) if ty == stringify!($XT) && rest.len() == $n => {
                    let s = scalars(rest)?;
                    let mut it = s.iter().cloned();
                    let arr: [S; $n] = [$({ let $f = it.next().unwrap(); $f }),+];
                    $X(match view.as_str() {
                        "array" => $XT::from(arr),
                        "array_ref" => { let r: &$XT<S> = From::from(&arr); *r }
                        "array_mut" => { let mut arr2 = arr; let r: &mut $XT<S> = From::from(&mut arr2); *r }
                        "tuple" => { let [$($f),+] = arr; let t: $tuple = ($($f),+,); $XT::from(t) }
                        "tuple_ref" => { let [$($f),+] = arr; let t: $tuple = ($($f),+,); let r: &$XT<S> = From::from(&t); *r }
                        "tuple_mut" => { let [$($f),+] = arr; let mut t: $tuple = ($($f),+,); let r: &mut $XT<S> = From::from(&mut t); *r }
                        "new" => { let [$($f),+] = arr; $XT::new($($f),+) }
                        "mint" => arr_views!(@mint_from $mint, $XT, arr),
                        _ => return None,
                    })
                }
                // write component i through a mutable view, then return the whole value
                ("view_write", [$X(x), T(view), I(i), N(s)]) => {
                    let mut x = *x;
                    let i = idx(*i);
                    match view.as_str() {
                        "index" => { x[i] = *s; }
                        "array_mut" => { let r: &mut [S; $n] = x.as_mut(); r[i] = *s; }
                        "tuple_mut" => { let r: &mut $tuple = x.as_mut(); let ($($f),+,) = r; let mut k = 0usize; $( if k == i { *$f = *s; } k += 1; )+ if i >= k { panic!("index out of range") } }
                        "range_mut" => { x[..][i] = *s; }
                        "ptr_mut" => { if i >= $n { panic!("index out of range") } let p = Array::as_mut_ptr(&mut x); unsafe { *p.add(i) = *s; } }
                        "fields" => { let mut k = 0usize; $( if k == i { x.$f = *s; } k += 1; )+ if i >= k { panic!("index out of range") } }
                        // write through the array, observe through the value converted by reference
                        "from_array_mut" => { let mut arr: [S; $n] = x.into(); { let r: &mut $XT<S> = From::from(&mut arr); r[i] = *s; } x = $XT::from(arr); }
                        _ => return None,
                    }
                    $X(x)
                }
                ("index_range", [$X(x), T(kind), I(lo), I(hi)]) => {
                    let (lo, hi) = (idx(*lo), idx(*hi));
                    match kind.as_str() {
                        "range" => tup(x[lo..hi].to_vec()),
                        "to" => tup(x[..hi].to_vec()),
                        "from" => tup(x[lo..].to_vec()),
                        _ => return None,
                    }
                }
                ("swap_elements", [$X(x), I(i), I(j)]) => { let mut x = *x; Array::swap_elements(&mut x, idx(*i), idx(*j)); $X(x) }
                ("map", [$X(x), N(k)]) => $X(x.map(|c| c + c + *k)),
                ("zip", [$X(x), $X(y)]) => $X(x.zip(*y, |p, q| p + p + q)),
                _ => return None,
            })
        }
    };
    (@conv 2, $x:expr) => { tup(cgmath::conv::array2($x).to_vec()) };
    (@conv 3, $x:expr) => { tup(cgmath::conv::array3($x).to_vec()) };
    (@conv 4, $x:expr) => { tup(cgmath::conv::array4($x).to_vec()) };
    (@conv 1, $x:expr) => { return None };
    (@mint_read none, $XT:ident, $x:expr, $n:expr) => { return None };
    (@mint_read $M:ident, $XT:ident, $x:expr, $n:expr) => {{ let m: mint::$M<S> = $x.into(); let r: [S; $n] = m.into(); tup(r.to_vec()) }};
    (@mint_from none, $XT:ident, $arr:expr) => { return None };
    (@mint_from $M:ident, $XT:ident, $arr:expr) => {{ let m: mint::$M<S> = mint::$M::from($arr); $XT::from(m) }};
}
arr_views!(views_v1, V1, Vector1, 1, (x), (S,), none);
arr_views!(views_v2, V2, Vector2, 2, (x, y), (S, S), Vector2);
arr_views!(views_v3, V3, Vector3, 3, (x, y, z), (S, S, S), Vector3);
arr_views!(views_v4, V4, Vector4, 4, (x, y, z, w), (S, S, S, S), Vector4);
arr_views!(views_p1, P1, Point1, 1, (x), (S,), none);
arr_views!(views_p2, P2, Point2, 2, (x, y), (S, S), Point2);
arr_views!(views_p3, P3, Point3, 3, (x, y, z), (S, S, S), Point3);

// ---------------------------------------------------------------- C16: matrices
macro_rules! mat_views {
    ($fname:ident, $M:ident, $MT:ident, $VT:ident, $V:ident, $n:expr, $nn:expr, ($($f:ident),+), $mint:ident, $conv:ident) => {
        fn $fname<S: Sc>(op: &str, f: &str, a: &[Val<S>]) -> Option<Val<S>> {
            use Val::*;
            Some(match (op, a) {
                ("col", [$M(m), I(c)]) => $V(m[idx(*c)]),
                ("view_read", [$M(m)]) => {
                    let m = *m;
                    match f {
                        "fields" => { let mut v = Vec::new(); $( { let c: [S; $n] = m.$f.into(); v.extend_from_slice(&c); } )+ tup(v) }
                        "index" => { let mut v = Vec::new(); for c in 0..$n { for r in 0..$n { v.push(m[c][r]); } } tup(v) }
                        "array_into" => { let r: [[S; $n]; $n] = m.into(); tup(r.iter().flat_map(|c| c.iter().cloned()).collect()) }
                        "array_ref" => { let r: &[[S; $n]; $n] = m.as_ref(); tup(r.iter().flat_map(|c| c.iter().cloned()).collect()) }
                        "flat_ref" => { let r: &[S; $nn] = m.as_ref(); tup(r.to_vec()) }
                        "ptr" => { let mf = m; let r: &[S; $nn] = mf.as_ref(); let p = r.as_ptr(); tup((0..$nn).map(|i| unsafe { *p.add(i) }).collect()) }
                        "conv" => { let r = cgmath::conv::$conv(m); tup(r.iter().flat_map(|c| c.iter().cloned()).collect()) }
                        "mint" => { let mm: mint::$mint<S> = m.into(); let mut v = Vec::new(); $( { let c: [S; $n] = mm.$f.into(); v.extend_from_slice(&c); } )+ tup(v) }
                        _ => return None,
                    }
                }
                ("view_from", [T(ty), T(view), rest @ ..]) if ty == stringify!($MT) && rest.len() == $nn => {
                    let s = scalars(rest)?;
                    let mut a2 = [[s[0]; $n]; $n];
                    let mut flat = [s[0]; $nn];
                    for c in 0..$n { for r in 0..$n { a2[c][r] = s[c * $n + r]; flat[c * $n + r] = s[c * $n + r]; } }
                    $M(match view.as_str() {
                        "array" => $MT::from(a2),
                        "array_ref" => { let r: &$MT<S> = From::from(&a2); *r }
                        "array_mut" => { let mut b = a2; let r: &mut $MT<S> = From::from(&mut b); *r }
                        "flat_ref" => { let r: &$MT<S> = From::from(&flat); *r }
                        "flat_mut" => { let mut b = flat; let r: &mut $MT<S> = From::from(&mut b); *r }
                        "mint" => { let mm: mint::$mint<S> = mint::$mint::from(a2); $MT::from(mm) }
                        _ => return None,
                    })
                }
                ("view_write", [$M(m), T(view), I(i), N(s)]) => {
                    let mut m = *m;
                    let i = idx(*i);
                    let (c, r) = (i / $n, i % $n);
                    match view.as_str() {
                        "index" => { m[c][r] = *s; }
                        "array_mut" => { let a: &mut [[S; $n]; $n] = m.as_mut(); a[c][r] = *s; }
                        "flat_mut" => { let a: &mut [S; $nn] = m.as_mut(); a[i] = *s; }
                        "col_mut" => { let col: &mut $VT<S> = &mut m[c]; col[r] = *s; }
                        "from_flat_mut" => { let fl: &[S; $nn] = m.as_ref(); let mut fl = *fl; { let mr: &mut $MT<S> = From::from(&mut fl); mr[c][r] = *s; } let back: &$MT<S> = From::from(&fl); m = *back; }
                        _ => return None,
                    }
                    $M(m)
                }
                _ => return None,
            })
        }
    };
}
mat_views!(views_m2, M2, Matrix2, Vector2, V2, 2, 4, (x, y), ColumnMatrix2, array2x2);
mat_views!(views_m3, M3, Matrix3, Vector3, V3, 3, 9, (x, y, z), ColumnMatrix3, array3x3);
mat_views!(views_m4, M4, Matrix4, Vector4, V4, 4, 16, (x, y, z, w), ColumnMatrix4, array4x4);

// ---------------------------------------------------------------- C16: quaternion
fn views_quat<S: Sc>(op: &str, f: &str, a: &[Val<S>]) -> Option<Val<S>> {
    use Val::*;
    Some(match (op, a) {
        ("view_read", [Q(q)]) => {
            let q = *q;
            match f {
                "fields" => tup(vec![q.v.x, q.v.y, q.v.z, q.s]),
                "index" => tup((0..4).map(|i| q[i]).collect()),
                "array_into" => { let r: [S; 4] = q.into(); tup(r.to_vec()) }
                "array_ref" => { let r: &[S; 4] = q.as_ref(); tup(r.to_vec()) }
                "tuple_into" => { let (x, y, z, w): (S, S, S, S) = q.into(); tup(vec![x, y, z, w]) }
                "tuple_ref" => { let r: &(S, S, S, S) = q.as_ref(); tup(vec![r.0, r.1, r.2, r.3]) }
                "range_full" => tup(q[..].to_vec()),
                "range_to_from" => { let mut v = q[..2].to_vec(); v.extend_from_slice(&q[2..]); tup(v) }
                "range" => tup(q[0..4].to_vec()),
                "mint" => { let m: mint::Quaternion<S> = q.into(); tup(vec![m.v.x, m.v.y, m.v.z, m.s]) }
                _ => return None,
            }
        }
        ("view_from", [T(ty), T(view), N(x), N(y), N(z), N(w)]) if ty == "Quaternion" => {
            let arr = [*x, *y, *z, *w];
            Q(match view.as_str() {
                "array" => Quaternion::from(arr),
                "array_ref" => { let r: &Quaternion<S> = From::from(&arr); *r }
                "array_mut" => { let mut b = arr; let r: &mut Quaternion<S> = From::from(&mut b); *r }
                "tuple" => Quaternion::from((*x, *y, *z, *w)),
                "tuple_ref" => { let t = (*x, *y, *z, *w); let r: &Quaternion<S> = From::from(&t); *r }
                "tuple_mut" => { let mut t = (*x, *y, *z, *w); let r: &mut Quaternion<S> = From::from(&mut t); *r }
                "mint" => { let m = mint::Quaternion { v: mint::Vector3 { x: *x, y: *y, z: *z }, s: *w }; Quaternion::from(m) }
                _ => return None,
            })
        }
        ("view_write", [Q(q), T(view), I(i), N(s)]) => {
            let mut q = *q;
            let i = idx(*i);
            match view.as_str() {
                "index" => { q[i] = *s; }
                "array_mut" => { let r: &mut [S; 4] = q.as_mut(); r[i] = *s; }
                "tuple_mut" => { let r: &mut (S, S, S, S) = q.as_mut(); match i { 0 => r.0 = *s, 1 => r.1 = *s, 2 => r.2 = *s, 3 => r.3 = *s, _ => panic!("index out of range") } }
                "range_mut" => { q[..][i] = *s; }
                "fields" => match i { 0 => q.v.x = *s, 1 => q.v.y = *s, 2 => q.v.z = *s, 3 => q.s = *s, _ => panic!("index out of range") },
                _ => return None,
            }
            Q(q)
        }
        ("index", [Q(q), I(i)]) => N(q[idx(*i)]),
        ("index_range", [Q(q), T(kind), I(lo), I(hi)]) => {
            let (lo, hi) = (idx(*lo), idx(*hi));
            match kind.as_str() { "range" => tup(q[lo..hi].to_vec()), "to" => tup(q[..hi].to_vec()), "from" => tup(q[lo..].to_vec()), _ => return None }
        }
        _ => return None,
    })
}

pub fn exec_views<S: Sc>(op: &str, f: &str, a: &[Val<S>]) -> Option<Val<S>> {
    macro_rules! try_all { ($($g:ident),+) => { $( if let Some(r) = $g(op, f, a) { return Some(r); } )+ } }
    try_all!(views_v1, views_v2, views_v3, views_v4, views_p1, views_p2, views_p3, views_m2, views_m3, views_m4, views_quat);
    if op == "swizzle" { return crate::swizzle_gen::swizzle(a); }
    if op == "cast" { return crate::exec_cast::cast(a); }
    None
}

// ---------------------------------------------------------------- C18: approximate equality and predicates
use approx::{AbsDiffEq, RelativeEq, UlpsEq};

/// components of a compound value in canonical order (public fields / conversions only)
pub fn comps<S: Sc>(v: &Val<S>) -> Option<Vec<S>> {
    use Val::*;
    Some(match v {
        N(x) => vec![*x],
        V1(v) => vec![v.x], V2(v) => vec![v.x, v.y], V3(v) => vec![v.x, v.y, v.z], V4(v) => vec![v.x, v.y, v.z, v.w],
        P1(v) => vec![v.x], P2(v) => vec![v.x, v.y], P3(v) => vec![v.x, v.y, v.z],
        M2(m) => vec![m.x.x, m.x.y, m.y.x, m.y.y],
        M3(m) => vec![m.x.x, m.x.y, m.x.z, m.y.x, m.y.y, m.y.z, m.z.x, m.z.y, m.z.z],
        M4(m) => vec![m.x.x, m.x.y, m.x.z, m.x.w, m.y.x, m.y.y, m.y.z, m.y.w, m.z.x, m.z.y, m.z.z, m.z.w, m.w.x, m.w.y, m.w.z, m.w.w],
        Q(q) => vec![q.v.x, q.v.y, q.v.z, q.s],
        ARad(a) => vec![a.0], ADeg(a) => vec![a.0],
        B2(b) => { let m = basis2_mat(b); vec![m.x.x, m.x.y, m.y.x, m.y.y] }
        B3(b) => { let m = basis3_mat(b); vec![m.x.x, m.x.y, m.x.z, m.y.x, m.y.y, m.y.z, m.z.x, m.z.y, m.z.z] }
        ERad(e) => vec![e.x.0, e.y.0, e.z.0], EDeg(e) => vec![e.x.0, e.y.0, e.z.0],
        DQ(d) => { let mut v = vec![d.scale, d.rot.v.x, d.rot.v.y, d.rot.v.z, d.rot.s]; v.extend_from_slice(&[d.disp.x, d.disp.y, d.disp.z]); v }
        D3(d) => { let mut v = vec![d.scale]; v.extend(comps::<S>(&B3(d.rot))?); v.extend_from_slice(&[d.disp.x, d.disp.y, d.disp.z]); v }
        D2(d) => { let mut v = vec![d.scale]; v.extend(comps::<S>(&B2(d.rot))?); v.extend_from_slice(&[d.disp.x, d.disp.y]); v }
        _ => return None,
    })
}
fn bools<S: Sc>(bs: Vec<bool>) -> Val<S> { Val::Tup(bs.into_iter().map(Val::B).collect()) }

fn def_eps<T: AbsDiffEq>(_: &T) -> T::Epsilon { T::default_epsilon() }
fn def_rel<T: RelativeEq>(_: &T) -> T::Epsilon { T::default_max_relative() }
fn def_ulps<T: UlpsEq>(_: &T) -> u32 { T::default_max_ulps() }
macro_rules! approx_arms {
    ($op:expr, $f:expr, $a:expr, $($V:ident),+) => {
        match ($op, $a) {
            $(
            // form "default": the compound type's own default tolerances (they are the scalar's)
            ("abs_diff_eq", [Val::$V(x), Val::$V(y), Val::N(e)]) => Some(if $f == "default" { x.abs_diff_eq(y, def_eps(x)) } else { x.abs_diff_eq(y, *e) }),
            ("relative_eq", [Val::$V(x), Val::$V(y), Val::N(e), Val::N(r)]) => Some(if $f == "default" { x.relative_eq(y, def_eps(x), def_rel(x)) } else { x.relative_eq(y, *e, *r) }),
            ("ulps_eq", [Val::$V(x), Val::$V(y), Val::N(e), Val::I(u)]) => Some(if $f == "default" { x.ulps_eq(y, def_eps(x), def_ulps(x)) } else { x.ulps_eq(y, *e, *u as u32) }),
            ("eq", [Val::$V(x), Val::$V(y)]) => Some(x == y),
            )+
            _ => None,
        }
    };
}

pub fn exec_approx<S: Sc + BaseFloat>(op: &str, f: &str, a: &[Val<S>]) -> Option<Val<S>> {
    use Val::*;
    // the three relations on every compound type; the scalar verdicts are observed on the components
    let compound: Option<bool> = approx_arms!(op, f, a, V1, V2, V3, V4, P1, P2, P3, M2, M3, M4, Q, ARad, ADeg, B2, B3, ERad, EDeg, DQ, D3, D2);
    if let Some(c) = compound {
        let (xs, ys) = (comps(&a[0])?, comps(&a[1])?);
        let is_mat_default = f == "default" && matches!(a[0], M2(_) | M3(_) | M4(_) | B2(_) | B3(_));
        let _ = is_mat_default;
        let sv: Vec<bool> = xs.iter().zip(ys.iter()).map(|(x, y)| match (op, a) {
            // form "default": the scalar's own defaults, whatever numbers the call carries
            ("abs_diff_eq", _) if f == "default" => x.abs_diff_eq(y, <S as AbsDiffEq>::default_epsilon()),
            ("relative_eq", _) if f == "default" => x.relative_eq(y, <S as AbsDiffEq>::default_epsilon(), <S as RelativeEq>::default_max_relative()),
            ("ulps_eq", _) if f == "default" => x.ulps_eq(y, <S as AbsDiffEq>::default_epsilon(), <S as UlpsEq>::default_max_ulps()),
            ("abs_diff_eq", [_, _, N(e)]) => x.abs_diff_eq(y, *e),
            ("relative_eq", [_, _, N(e), N(r)]) => x.relative_eq(y, *e, *r),
            ("ulps_eq", [_, _, N(e), I(u)]) => x.ulps_eq(y, *e, *u as u32),
            _ => x == y,
        }).collect();
        return Some(Tup(vec![B(c), bools(sv)]));
    }
    // Zero::is_zero of an angle built from a raw number
    if f == "raw" && op == "is_zero_approx" {
        if let [T(unit), N(x)] = a {
            let c = match unit.as_str() { "Rad" => Rad(*x).is_zero(), "Deg" => Deg(*x).is_zero(), _ => return None };
            return Some(Tup(vec![B(c), bools(vec![x.ulps_eq(&S::zero(), <S as AbsDiffEq>::default_epsilon(), <S as UlpsEq>::default_max_ulps())])]));
        }
        return None;
    }
    // angles and Euler triples are built from raw numbers inside the call: f = "raw", args (T unit, x.., y.., eps [, rel | ulps])
    if f == "raw" {
        if let Some(T(unit)) = a.first() {
            let n = if unit.starts_with('E') { 3 } else { 1 };
            let nums: Vec<S> = a[1..].iter().filter_map(|v| if let N(s) = v { Some(*s) } else { None }).collect();
            if nums.len() < 2 * n + 1 { return None; }
            let (xs, ys, e) = (&nums[0..n], &nums[n..2 * n], nums[2 * n]);
            let (rel, ulps) = (nums.get(2 * n + 1).cloned(), a.last().and_then(|v| if let I(u) = v { Some(*u as u32) } else { None }));
            macro_rules! cmp { ($x:expr, $y:expr) => { match op {
                "abs_diff_eq" => $x.abs_diff_eq(&$y, e), "relative_eq" => $x.relative_eq(&$y, e, rel?), "ulps_eq" => $x.ulps_eq(&$y, e, ulps?), _ => return None } } }
            let c = match unit.as_str() {
                "Rad" => cmp!(Rad(xs[0]), Rad(ys[0])), "Deg" => cmp!(Deg(xs[0]), Deg(ys[0])),
                "ERad" => cmp!(Euler::new(Rad(xs[0]), Rad(xs[1]), Rad(xs[2])), Euler::new(Rad(ys[0]), Rad(ys[1]), Rad(ys[2]))),
                "EDeg" => cmp!(Euler::new(Deg(xs[0]), Deg(xs[1]), Deg(xs[2])), Euler::new(Deg(ys[0]), Deg(ys[1]), Deg(ys[2]))),
                _ => return None,
            };
            let sv: Vec<bool> = xs.iter().zip(ys.iter()).map(|(x, y)| match op {
                "abs_diff_eq" => x.abs_diff_eq(y, e), "relative_eq" => x.relative_eq(y, e, rel.unwrap()), _ => x.ulps_eq(y, e, ulps.unwrap()) }).collect();
            return Some(Tup(vec![B(c), bools(sv)]));
        }
        return None;
    }
    Some(match (op, a) {
        ("is_finite", [x]) => {
            let c = match x { V1(v) => v.is_finite(), V2(v) => v.is_finite(), V3(v) => v.is_finite(), V4(v) => v.is_finite(),
                P1(v) => v.is_finite(), P2(v) => v.is_finite(), P3(v) => v.is_finite(),
                M2(m) => m.is_finite(), M3(m) => m.is_finite(), M4(m) => m.is_finite(), Q(q) => q.is_finite(), _ => return None };
            Tup(vec![B(c), bools(comps(x)?.iter().map(|s| num_traits::Float::is_finite(*s)).collect())])
        }
        ("is_zero_approx", [x]) => {
            let c = match x { M2(m) => m.is_zero(), M3(m) => m.is_zero(), M4(m) => m.is_zero(), Q(q) => q.is_zero(), ARad(r) => r.is_zero(), ADeg(r) => r.is_zero(), _ => return None };
            let z = S::zero();
            // Matrix::is_zero compares with the matrix default epsilon (1e-6), the others with the scalar default
            let sv: Vec<bool> = comps(x)?.iter().map(|s| match x {
                M2(_) | M3(_) | M4(_) => s.ulps_eq(&z, num_traits::cast(1.0e-6f64).unwrap(), <S as UlpsEq>::default_max_ulps()),
                _ => s.ulps_eq(&z, <S as AbsDiffEq>::default_epsilon(), <S as UlpsEq>::default_max_ulps()) }).collect();
            Tup(vec![B(c), bools(sv)])
        }
        ("is_identity", [x]) => {
            let (c, id) = match x { M2(m) => (m.is_identity(), M2(Matrix2::identity())), M3(m) => (m.is_identity(), M3(Matrix3::identity())), M4(m) => (m.is_identity(), M4(Matrix4::identity())), _ => return None };
            let sv: Vec<bool> = comps(x)?.iter().zip(comps(&id)?.iter()).map(|(s, t)| s.ulps_eq(t, num_traits::cast(1.0e-6f64).unwrap(), <S as UlpsEq>::default_max_ulps())).collect();
            Tup(vec![B(c), bools(sv)])
        }
        ("is_diagonal", [x]) | ("is_symmetric", [x]) => {
            let (c, n) = match (op, x) {
                ("is_diagonal", M2(m)) => (m.is_diagonal(), 2), ("is_diagonal", M3(m)) => (m.is_diagonal(), 3), ("is_diagonal", M4(m)) => (m.is_diagonal(), 4),
                ("is_symmetric", M2(m)) => (m.is_symmetric(), 2), ("is_symmetric", M3(m)) => (m.is_symmetric(), 3), ("is_symmetric", M4(m)) => (m.is_symmetric(), 4),
                _ => return None };
            let e = comps(x)?;
            let z = S::zero();
            let mut sv = Vec::new();
            for cc in 0..n { for r in 0..n { if cc != r {
                let s = e[cc * n + r];
                sv.push(if op == "is_diagonal" { s.ulps_eq(&z, <S as AbsDiffEq>::default_epsilon(), <S as UlpsEq>::default_max_ulps()) }
                        else { s.ulps_eq(&e[r * n + cc], <S as AbsDiffEq>::default_epsilon(), <S as UlpsEq>::default_max_ulps()) });
            } } }
            Tup(vec![B(c), bools(sv)])
        }
        ("is_invertible", [x]) => {
            let (c, d) = match x { M2(m) => (m.is_invertible(), m.determinant()), M3(m) => (m.is_invertible(), m.determinant()), M4(m) => (m.is_invertible(), m.determinant()), _ => return None };
            Tup(vec![B(c), bools(vec![!d.ulps_eq(&S::zero(), <S as AbsDiffEq>::default_epsilon(), <S as UlpsEq>::default_max_ulps())])])
        }
        ("is_perpendicular", [x, y]) => {
            let (c, d) = match (x, y) { (V1(u), V1(v)) => (u.is_perpendicular(*v), u.dot(*v)), (V2(u), V2(v)) => (u.is_perpendicular(*v), u.dot(*v)),
                (V3(u), V3(v)) => (u.is_perpendicular(*v), u.dot(*v)), (V4(u), V4(v)) => (u.is_perpendicular(*v), u.dot(*v)),
                (Q(u), Q(v)) => (u.is_perpendicular(*v), u.dot(*v)), _ => return None };
            Tup(vec![B(c), bools(vec![d.ulps_eq(&S::zero(), <S as AbsDiffEq>::default_epsilon(), <S as UlpsEq>::default_max_ulps())])])
        }
        _ => return None,
    })
}

pub fn exec_flt_misc<S: Sc + BaseFloat>(op: &str, f: &str, a: &[Val<S>]) -> Option<Val<S>> {
    exec_approx(op, f, a)
}

// ---------------------------------------------------------------- Bounded (spec growth, not owned by a listed property)
pub fn exec_bounded<S: Sc + num_traits::Bounded>(op: &str, _f: &str, a: &[Val<S>]) -> Option<Val<S>> {
    use num_traits::Bounded;
    if op != "bounded" { return None; }
    let ty = match a.first() { Some(Val::T(t)) => t.as_str(), _ => return None };
    let (lo, hi) = (S::min_value(), S::max_value());
    Some(Val::B(match ty {
        "Vector1" => Vector1::<S>::min_value() == Vector1::from_value(lo) && Vector1::<S>::max_value() == Vector1::from_value(hi),
        "Vector2" => Vector2::<S>::min_value() == Vector2::from_value(lo) && Vector2::<S>::max_value() == Vector2::from_value(hi),
        "Vector3" => Vector3::<S>::min_value() == Vector3::from_value(lo) && Vector3::<S>::max_value() == Vector3::from_value(hi),
        "Vector4" => Vector4::<S>::min_value() == Vector4::from_value(lo) && Vector4::<S>::max_value() == Vector4::from_value(hi),
        "Point1" => Point1::<S>::min_value() == Point1::new(lo) && Point1::<S>::max_value() == Point1::new(hi),
        "Point2" => Point2::<S>::min_value() == Point2::new(lo, lo) && Point2::<S>::max_value() == Point2::new(hi, hi),
        "Point3" => Point3::<S>::min_value() == Point3::new(lo, lo, lo) && Point3::<S>::max_value() == Point3::new(hi, hi, hi),
        "Rad" => Rad::<S>::min_value().0 == lo && Rad::<S>::max_value().0 == hi,
        "Deg" => Deg::<S>::min_value().0 == lo && Deg::<S>::max_value().0 == hi,
        _ => return None,
    }))
}
