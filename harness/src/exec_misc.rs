//! Executor, part 3: views/layout (C16), approx and predicates (C18), cast (C19), serde (C20).
use crate::sc::Sc;
use crate::val::*;
use cgmath::*;

pub fn exec_flt_misc<S: Sc + BaseFloat>(_op: &str, _f: &str, _a: &[Val<S>]) -> Option<Val<S>> {
    None
}
