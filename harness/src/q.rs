//! Exact rational scalar implementing cgmath::BaseFloat.
//!
//! `Q` lets the *unmodified generic source* of cgmath run in exact arithmetic:
//! `Matrix4<Q>::invert()` executes the same lines as `Matrix4<f64>::invert()`.
//! Operations that have no exact rational value (sqrt of a non-square, trig of
//! an angle outside the symbolic table) panic with a payload starting "Q:",
//! which the executor reports as "not executable at Q" (never as a result).
use num_traits::{Float, Num, NumCast, One, ToPrimitive, Zero};
use std::cmp::Ordering;
use std::fmt;
use std::num::FpCategory;
use std::ops::*;

#[derive(Copy, Clone)]
pub struct Q {
    pub n: i128,
    pub d: i128,
} // d >= 0; d == 0: n in {1,-1} = +-inf, n == 0 = NaN

pub fn gcd(mut a: i128, mut b: i128) -> i128 {
    while b != 0 {
        let t = a % b;
        a = b;
        b = t;
    }
    a.abs()
}
impl Q {
    pub fn new(n: i128, d: i128) -> Q {
        if d == 0 {
            return Q { n: n.signum(), d: 0 };
        }
        let g = gcd(n, d);
        let s = if d < 0 { -1 } else { 1 };
        Q { n: s * n / g, d: s * d / g }
    }
    pub fn int(n: i128) -> Q {
        Q { n, d: 1 }
    }
    fn m(a: i128, b: i128) -> i128 {
        a.checked_mul(b).unwrap_or_else(|| panic!("Q:overflow"))
    }
    pub fn qnan() -> Q {
        Q { n: 0, d: 0 }
    }
    pub fn from_f64(f: f64) -> Q {
        if f.is_nan() {
            return Q::qnan();
        }
        if f.is_infinite() {
            return Q::new(if f > 0.0 { 1 } else { -1 }, 0);
        }
        if f == 0.0 {
            return Q::int(0);
        }
        let (m, e, s) = Float::integer_decode(f);
        let m = m as i128 * s as i128;
        if e >= 0 {
            if e > 60 {
                panic!("Q:overflow");
            }
            Q::int(m << e)
        } else {
            if -e > 120 {
                panic!("Q:overflow");
            }
            Q::new(m, 1i128 << (-e))
        }
    }
    pub fn approx(self) -> f64 {
        if self.d == 0 {
            return if self.n > 0 {
                f64::INFINITY
            } else if self.n < 0 {
                f64::NEG_INFINITY
            } else {
                f64::NAN
            };
        }
        self.n as f64 / self.d as f64
    }
}
impl fmt::Debug for Q {
    fn fmt(&self, f: &mut fmt::Formatter) -> fmt::Result {
        if self.d == 1 {
            write!(f, "{}", self.n)
        } else {
            write!(f, "{}/{}", self.n, self.d)
        }
    }
}
impl PartialEq for Q {
    fn eq(&self, o: &Q) -> bool {
        if self.is_nan() || o.is_nan() {
            false
        } else {
            self.n == o.n && self.d == o.d
        }
    }
}
impl PartialOrd for Q {
    fn partial_cmp(&self, o: &Q) -> Option<Ordering> {
        if self.is_nan() || o.is_nan() {
            return None;
        }
        if self.d == 0 || o.d == 0 {
            let a = if self.d == 0 { self.n * 2 } else { 0 };
            let b = if o.d == 0 { o.n * 2 } else { 0 };
            if a == b && a == 0 {
                unreachable!()
            }
            return a.partial_cmp(&b);
        }
        Q::m(self.n, o.d).partial_cmp(&Q::m(o.n, self.d))
    }
}
impl Add for Q {
    type Output = Q;
    fn add(self, o: Q) -> Q {
        if self.d == 0 || o.d == 0 {
            if self.is_nan() || o.is_nan() {
                return Q::qnan();
            }
            if self.d == 0 && o.d == 0 {
                return if self.n == o.n { self } else { Q::qnan() };
            }
            return if self.d == 0 { self } else { o };
        }
        let g = gcd(self.d, o.d);
        let (da, db) = (self.d / g, o.d / g);
        Q::new(
            Q::m(self.n, db)
                .checked_add(Q::m(o.n, da))
                .unwrap_or_else(|| panic!("Q:overflow")),
            Q::m(self.d, db),
        )
    }
}
impl Neg for Q {
    type Output = Q;
    fn neg(self) -> Q {
        Q { n: -self.n, d: self.d }
    }
}
impl Sub for Q {
    type Output = Q;
    fn sub(self, o: Q) -> Q {
        self + (-o)
    }
}
impl Mul for Q {
    type Output = Q;
    fn mul(self, o: Q) -> Q {
        if self.d == 0 || o.d == 0 {
            if self.is_nan() || o.is_nan() {
                return Q::qnan();
            }
            return Q::new(self.n.signum() * o.n.signum(), 0);
        }
        let g1 = gcd(self.n, o.d).max(1);
        let g2 = gcd(o.n, self.d).max(1);
        Q::new(Q::m(self.n / g1, o.n / g2), Q::m(self.d / g2, o.d / g1))
    }
}
impl Div for Q {
    type Output = Q;
    fn div(self, o: Q) -> Q {
        if self.is_nan() || o.is_nan() {
            return Q::qnan();
        }
        if o.d == 0 {
            return if self.d == 0 { Q::qnan() } else { Q::int(0) };
        }
        if o.n == 0 {
            return Q::new(self.n.signum(), 0);
        }
        let r = if o.n < 0 { Q { n: -o.d, d: -o.n } } else { Q { n: o.d, d: o.n } };
        self * r
    }
}
impl Rem for Q {
    type Output = Q;
    fn rem(self, o: Q) -> Q {
        // truncated remainder like fmod
        if self.d == 0 || o.d == 0 || o.n == 0 {
            if o.d == 0 && !o.is_nan() && self.d != 0 {
                return self;
            }
            return Q::qnan();
        }
        let q = self / o;
        let t = q.n / q.d;
        self - o * Q::int(t)
    }
}
macro_rules! asg {
    ($T:ident, $f:ident, $op:tt) => {
        impl $T for Q {
            fn $f(&mut self, o: Q) {
                *self = *self $op o;
            }
        }
    };
}
asg!(AddAssign, add_assign, +);
asg!(SubAssign, sub_assign, -);
asg!(MulAssign, mul_assign, *);
asg!(DivAssign, div_assign, /);
asg!(RemAssign, rem_assign, %);
impl num_traits::Bounded for Q {
    fn min_value() -> Q { Q::int(-(1 << 100)) }
    fn max_value() -> Q { Q::int(1 << 100) }
}
impl Zero for Q {
    fn zero() -> Q {
        Q::int(0)
    }
    fn is_zero(&self) -> bool {
        self.d != 0 && self.n == 0
    }
}
impl One for Q {
    fn one() -> Q {
        Q::int(1)
    }
}
impl Num for Q {
    type FromStrRadixErr = ();
    fn from_str_radix(_: &str, _: u32) -> Result<Q, ()> {
        Err(())
    }
}
impl ToPrimitive for Q {
    fn to_i64(&self) -> Option<i64> {
        if self.d == 0 {
            None
        } else {
            (self.n / self.d).to_i64()
        }
    }
    fn to_u64(&self) -> Option<u64> {
        if self.d == 0 {
            None
        } else {
            (self.n / self.d).to_u64()
        }
    }
    fn to_f64(&self) -> Option<f64> {
        Some(self.approx())
    }
}
impl NumCast for Q {
    fn from<T: ToPrimitive>(v: T) -> Option<Q> {
        // exact: integers via i64 when they round-trip, otherwise the dyadic value of the f64
        let f = v.to_f64()?;
        if f.is_finite() && f.fract() == 0.0 {
            if let Some(i) = v.to_i64() {
                return Some(Q::int(i as i128));
            }
        }
        Some(Q::from_f64(f))
    }
}
pub fn isqrt(n: i128) -> Option<i128> {
    if n < 0 {
        return None;
    }
    let mut r = (n as f64).sqrt() as i128;
    while r * r > n {
        r -= 1;
    }
    while (r + 1) * (r + 1) <= n {
        r += 1;
    }
    if r * r == n {
        Some(r)
    } else {
        None
    }
}

impl Float for Q {
    fn nan() -> Q {
        Q::qnan()
    }
    fn infinity() -> Q {
        Q { n: 1, d: 0 }
    }
    fn neg_infinity() -> Q {
        Q { n: -1, d: 0 }
    }
    fn neg_zero() -> Q {
        Q::int(0)
    }
    fn min_value() -> Q {
        Q::int(-(1 << 100))
    }
    fn min_positive_value() -> Q {
        Q::new(1, 1 << 100)
    }
    fn max_value() -> Q {
        Q::int(1 << 100)
    }
    fn epsilon() -> Q {
        Q::int(0)
    }
    fn is_nan(self) -> bool {
        self.d == 0 && self.n == 0
    }
    fn is_infinite(self) -> bool {
        self.d == 0 && self.n != 0
    }
    fn is_finite(self) -> bool {
        self.d != 0
    }
    fn is_normal(self) -> bool {
        self.d != 0 && self.n != 0
    }
    fn classify(self) -> FpCategory {
        if self.is_nan() {
            FpCategory::Nan
        } else if self.d == 0 {
            FpCategory::Infinite
        } else if self.n == 0 {
            FpCategory::Zero
        } else {
            FpCategory::Normal
        }
    }
    fn floor(self) -> Q {
        Q::int(self.n.div_euclid(self.d))
    }
    fn ceil(self) -> Q {
        -((-self).floor())
    }
    fn round(self) -> Q {
        panic!("Q:unimplemented round")
    }
    fn trunc(self) -> Q {
        Q::int(self.n / self.d)
    }
    fn fract(self) -> Q {
        self - self.trunc()
    }
    fn abs(self) -> Q {
        Q { n: self.n.abs(), d: self.d }
    }
    fn signum(self) -> Q {
        Q::int(self.n.signum())
    }
    fn is_sign_positive(self) -> bool {
        self.n >= 0
    }
    fn is_sign_negative(self) -> bool {
        self.n < 0
    }
    fn mul_add(self, a: Q, b: Q) -> Q {
        self * a + b
    }
    fn recip(self) -> Q {
        Q::int(1) / self
    }
    fn powi(self, _: i32) -> Q {
        panic!("Q:unimplemented powi")
    }
    fn powf(self, _: Q) -> Q {
        panic!("Q:unimplemented powf")
    }
    fn sqrt(self) -> Q {
        if self.d == 0 {
            return if self.n < 0 { Q::qnan() } else { self };
        }
        if self.n < 0 {
            return Q::qnan();
        }
        match (isqrt(self.n), isqrt(self.d)) {
            (Some(a), Some(b)) => Q::new(a, b),
            _ => panic!("Q:sqrt-nonsquare {:?}", self),
        }
    }
    fn exp(self) -> Q {
        panic!("Q:unimplemented")
    }
    fn exp2(self) -> Q {
        panic!("Q:unimplemented")
    }
    fn ln(self) -> Q {
        panic!("Q:unimplemented")
    }
    fn log(self, _: Q) -> Q {
        panic!("Q:unimplemented")
    }
    fn log2(self) -> Q {
        panic!("Q:unimplemented")
    }
    fn log10(self) -> Q {
        panic!("Q:unimplemented")
    }
    fn max(self, o: Q) -> Q {
        if self.is_nan() {
            return o;
        }
        if o.is_nan() {
            return self;
        }
        if self >= o {
            self
        } else {
            o
        }
    }
    fn min(self, o: Q) -> Q {
        if self.is_nan() {
            return o;
        }
        if o.is_nan() {
            return self;
        }
        if self <= o {
            self
        } else {
            o
        }
    }
    fn abs_sub(self, _: Q) -> Q {
        panic!("Q:unimplemented")
    }
    fn cbrt(self) -> Q {
        panic!("Q:unimplemented")
    }
    fn hypot(self, _: Q) -> Q {
        panic!("Q:unimplemented")
    }
    fn sin(self) -> Q {
        crate::ang::q_sin_cos(self).0
    }
    fn cos(self) -> Q {
        crate::ang::q_sin_cos(self).1
    }
    fn tan(self) -> Q {
        let (s, c) = crate::ang::q_sin_cos(self);
        s / c
    }
    fn asin(self) -> Q {
        crate::ang::q_asin(self)
    }
    fn acos(self) -> Q {
        crate::ang::q_acos(self)
    }
    fn atan(self) -> Q {
        crate::ang::q_atan2(self, Q::int(1))
    }
    fn atan2(self, x: Q) -> Q {
        crate::ang::q_atan2(self, x)
    }
    fn sin_cos(self) -> (Q, Q) {
        crate::ang::q_sin_cos(self)
    }
    fn exp_m1(self) -> Q {
        panic!("Q:unimplemented")
    }
    fn ln_1p(self) -> Q {
        panic!("Q:unimplemented")
    }
    fn sinh(self) -> Q {
        panic!("Q:unimplemented")
    }
    fn cosh(self) -> Q {
        panic!("Q:unimplemented")
    }
    fn tanh(self) -> Q {
        panic!("Q:unimplemented")
    }
    fn asinh(self) -> Q {
        panic!("Q:unimplemented")
    }
    fn acosh(self) -> Q {
        panic!("Q:unimplemented")
    }
    fn atanh(self) -> Q {
        panic!("Q:unimplemented")
    }
    fn integer_decode(self) -> (u64, i16, i8) {
        panic!("Q:unimplemented")
    }
}
// approx traits with exact semantics (default tolerance 0)
impl approx::AbsDiffEq for Q {
    type Epsilon = Q;
    fn default_epsilon() -> Q {
        Q::int(0)
    }
    fn abs_diff_eq(&self, o: &Q, e: Q) -> bool {
        if self == o {
            return true;
        }
        if self.d == 0 || o.d == 0 {
            return false;
        }
        (*self - *o).abs() <= e
    }
}
impl approx::RelativeEq for Q {
    fn default_max_relative() -> Q {
        Q::int(0)
    }
    fn relative_eq(&self, o: &Q, e: Q, r: Q) -> bool {
        if self == o {
            return true;
        }
        if self.d == 0 || o.d == 0 {
            return false;
        }
        let d = (*self - *o).abs();
        d <= e || d <= Float::max(self.abs(), o.abs()) * r
    }
}
impl approx::UlpsEq for Q {
    fn default_max_ulps() -> u32 {
        0
    }
    fn ulps_eq(&self, o: &Q, e: Q, _: u32) -> bool {
        if self == o {
            return true;
        }
        if self.d == 0 || o.d == 0 {
            return false;
        }
        (*self - *o).abs() <= e
    }
}
