//! Executor, part 1: vectors, points, matrices — the only code that touches cgmath
//! for these ops.  Every operand form is a separately compiled call site.
use crate::sc::Sc;
use crate::val::Val;
use cgmath::prelude::*;
use cgmath::*;

#[macro_export]
macro_rules! bin4 {
    ($f:expr, $x:expr, $y:expr, $op:tt) => {
        match $f {
            "vv" => $x $op $y,
            "rv" => &$x $op $y,
            "vr" => $x $op &$y,
            "rr" => &$x $op &$y,
            _ => return None,
        }
    };
}
#[macro_export]
macro_rules! bin4a {
    ($f:expr, $x:expr, $y:expr, $op:tt, $opa:tt) => {
        match $f {
            "vv" => $x $op $y,
            "rv" => &$x $op $y,
            "vr" => $x $op &$y,
            "rr" => &$x $op &$y,
            "as" => { let mut t = $x; t $opa $y; t }
            _ => return None,
        }
    };
}
// scalar on the right: only Lhs and &Lhs exist
#[macro_export]
macro_rules! bin2a {
    ($f:expr, $x:expr, $y:expr, $op:tt, $opa:tt) => {
        match $f {
            "vv" => $x $op $y,
            "rv" => &$x $op $y,
            "as" => { let mut t = $x; t $opa $y; t }
            _ => return None,
        }
    };
}
#[macro_export]
macro_rules! bin2 {
    ($f:expr, $x:expr, $y:expr, $op:tt) => {
        match $f {
            "vv" => $x $op $y,
            "rv" => &$x $op $y,
            _ => return None,
        }
    };
}
// ElementWise methods: by-value method or the *_assign_* method
macro_rules! ew {
    ($f:expr, $x:expr, $y:expr, $m:ident, $ma:ident) => {
        match $f {
            "m" => $x.$m($y),
            "as" => { let mut t = $x; t.$ma($y); t }
            _ => return None,
        }
    };
}

fn idx(i: i64) -> usize {
    if i < 0 { usize::MAX } else { i as usize }
}

macro_rules! vec_num {
    ($fname:ident, $V:ident, $VT:ident, $n:expr) => {
        fn $fname<S: Sc>(op: &str, f: &str, a: &[Val<S>]) -> Option<Val<S>> {
            use Val::*;
            Some(match (op, a) {
                ("add", [$V(x), $V(y)]) => $V(bin4a!(f, *x, *y, +, +=)),
                ("sub", [$V(x), $V(y)]) => $V(bin4a!(f, *x, *y, -, -=)),
                ("mul_s", [$V(x), N(k)]) => $V(bin2a!(f, *x, *k, *, *=)),
                ("div_s", [$V(x), N(k)]) => $V(bin2a!(f, *x, *k, /, /=)),
                ("rem_s", [$V(x), N(k)]) => $V(bin2a!(f, *x, *k, %, %=)),
                ("add_ew", [$V(x), $V(y)]) => $V(ew!(f, *x, *y, add_element_wise, add_assign_element_wise)),
                ("sub_ew", [$V(x), $V(y)]) => $V(ew!(f, *x, *y, sub_element_wise, sub_assign_element_wise)),
                ("mul_ew", [$V(x), $V(y)]) => $V(ew!(f, *x, *y, mul_element_wise, mul_assign_element_wise)),
                ("div_ew", [$V(x), $V(y)]) => $V(ew!(f, *x, *y, div_element_wise, div_assign_element_wise)),
                ("rem_ew", [$V(x), $V(y)]) => $V(ew!(f, *x, *y, rem_element_wise, rem_assign_element_wise)),
                ("add_ew", [$V(x), N(k)]) => $V(ew!(f, *x, *k, add_element_wise, add_assign_element_wise)),
                ("sub_ew", [$V(x), N(k)]) => $V(ew!(f, *x, *k, sub_element_wise, sub_assign_element_wise)),
                ("mul_ew", [$V(x), N(k)]) => $V(ew!(f, *x, *k, mul_element_wise, mul_assign_element_wise)),
                ("div_ew", [$V(x), N(k)]) => $V(ew!(f, *x, *k, div_element_wise, div_assign_element_wise)),
                ("rem_ew", [$V(x), N(k)]) => $V(ew!(f, *x, *k, rem_element_wise, rem_assign_element_wise)),
                ("dot", [$V(x), $V(y)]) => N(match f { "m" => x.dot(*y), "free" => cgmath::dot(*x, *y), _ => return None }),
                ("mag2", [$V(x)]) => N(x.magnitude2()),
                ("sum", [$V(x)]) => N(Array::sum(*x)),
                ("product", [$V(x)]) => N(Array::product(*x)),
                ("distance2", [$V(x), $V(y)]) => N(x.distance2(*y)),
                ("lerp", [$V(x), $V(y), N(t)]) => $V(x.lerp(*y, *t)),
                ("project_on", [$V(x), $V(y)]) => $V(x.project_on(*y)),
                ("is_zero", [$V(x)]) => B(Zero::is_zero(x)),
                ("index", [$V(x), I(i)]) => N(x[idx(*i)]),
                ("from_value", [T(t), N(k)]) if t == stringify!($VT) => $V($VT::from_value(*k)),
                ("zero", [T(t)]) if t == stringify!($VT) => $V($VT::zero()),
                ("len", [T(t)]) if t == stringify!($VT) => I(<$VT<S> as Array>::len() as i64),
                ("iter_sum", [T(t), rest @ ..]) if t == stringify!($VT) => {
                    let mut xs: Vec<$VT<S>> = Vec::new();
                    for r in rest { if let $V(x) = r { xs.push(*x) } else { return None } }
                    $V(match f { "v" => xs.iter().cloned().sum(), "r" => xs.iter().sum(), _ => return None })
                }
                _ => return None,
            })
        }
    };
}
vec_num!(vec1_num, V1, Vector1, 1);
vec_num!(vec2_num, V2, Vector2, 2);
vec_num!(vec3_num, V3, Vector3, 3);
vec_num!(vec4_num, V4, Vector4, 4);

macro_rules! pt_num {
    ($fname:ident, $P:ident, $PT:ident, $V:ident, $VT:ident, $n:expr) => {
        fn $fname<S: Sc>(op: &str, f: &str, a: &[Val<S>]) -> Option<Val<S>> {
            use Val::*;
            Some(match (op, a) {
                ("add", [$P(x), $V(y)]) => $P(bin4a!(f, *x, *y, +, +=)),
                ("sub", [$P(x), $V(y)]) => $P(bin4a!(f, *x, *y, -, -=)),
                ("sub", [$P(x), $P(y)]) => $V(bin4!(f, *x, *y, -)),
                ("mul_s", [$P(x), N(k)]) => $P(bin2a!(f, *x, *k, *, *=)),
                ("div_s", [$P(x), N(k)]) => $P(bin2a!(f, *x, *k, /, /=)),
                ("rem_s", [$P(x), N(k)]) => $P(bin2a!(f, *x, *k, %, %=)),
                ("add_ew", [$P(x), $P(y)]) => $P(ew!(f, *x, *y, add_element_wise, add_assign_element_wise)),
                ("sub_ew", [$P(x), $P(y)]) => $P(ew!(f, *x, *y, sub_element_wise, sub_assign_element_wise)),
                ("mul_ew", [$P(x), $P(y)]) => $P(ew!(f, *x, *y, mul_element_wise, mul_assign_element_wise)),
                ("div_ew", [$P(x), $P(y)]) => $P(ew!(f, *x, *y, div_element_wise, div_assign_element_wise)),
                ("rem_ew", [$P(x), $P(y)]) => $P(ew!(f, *x, *y, rem_element_wise, rem_assign_element_wise)),
                ("add_ew", [$P(x), N(k)]) => $P(ew!(f, *x, *k, add_element_wise, add_assign_element_wise)),
                ("sub_ew", [$P(x), N(k)]) => $P(ew!(f, *x, *k, sub_element_wise, sub_assign_element_wise)),
                ("mul_ew", [$P(x), N(k)]) => $P(ew!(f, *x, *k, mul_element_wise, mul_assign_element_wise)),
                ("div_ew", [$P(x), N(k)]) => $P(ew!(f, *x, *k, div_element_wise, div_assign_element_wise)),
                ("rem_ew", [$P(x), N(k)]) => $P(ew!(f, *x, *k, rem_element_wise, rem_assign_element_wise)),
                ("dot", [$P(x), $V(y)]) => N(EuclideanSpace::dot(*x, *y)),
                ("sum", [$P(x)]) => N(Array::sum(*x)),
                ("product", [$P(x)]) => N(Array::product(*x)),
                ("distance2", [$P(x), $P(y)]) => N(x.distance2(*y)),
                ("to_vec", [$P(x)]) => $V(x.to_vec()),
                ("from_vec", [$V(x)]) => $P($PT::from_vec(*x)),
                ("midpoint", [$P(x), $P(y)]) => $P(x.midpoint(*y)),
                ("index", [$P(x), I(i)]) => N(x[idx(*i)]),
                ("origin", [T(t)]) if t == stringify!($PT) => $P($PT::origin()),
                ("from_value", [T(t), N(k)]) if t == stringify!($PT) => $P($PT::from_value(*k)),
                ("len", [T(t)]) if t == stringify!($PT) => I(<$PT<S> as Array>::len() as i64),
                _ => return None,
            })
        }
    };
}
pt_num!(pt1_num, P1, Point1, V1, Vector1, 1);
pt_num!(pt2_num, P2, Point2, V2, Vector2, 2);
pt_num!(pt3_num, P3, Point3, V3, Vector3, 3);

// centroid needs NumCast on the scalar; only the field kinds and integers provide it through num-traits
macro_rules! pt_centroid {
    ($fname:ident, $P:ident, $PT:ident) => {
        fn $fname<S: Sc + num_traits::NumCast>(a: &[Val<S>]) -> Option<Val<S>> {
            let mut ps: Vec<$PT<S>> = Vec::new();
            for r in a { if let Val::$P(x) = r { ps.push(*x) } else { return None } }
            Some(Val::$P($PT::centroid(&ps)))
        }
    };
}
pt_centroid!(pt1_centroid, P1, Point1);
pt_centroid!(pt2_centroid, P2, Point2);
pt_centroid!(pt3_centroid, P3, Point3);

pub fn exec_centroid<S: Sc + num_traits::NumCast>(op: &str, a: &[Val<S>]) -> Option<Val<S>> {
    if op != "centroid" { return None; }
    match a.first() {
        Some(Val::P1(_)) => pt1_centroid(a),
        Some(Val::P2(_)) => pt2_centroid(a),
        Some(Val::P3(_)) => pt3_centroid(a),
        _ => None,
    }
}

/// ops available for every BaseNum scalar
pub fn exec_num<S: Sc>(op: &str, f: &str, a: &[Val<S>]) -> Option<Val<S>> {
    use Val::*;
    if let Some(r) = vec1_num(op, f, a) { return Some(r); }
    if let Some(r) = vec2_num(op, f, a) { return Some(r); }
    if let Some(r) = vec3_num(op, f, a) { return Some(r); }
    if let Some(r) = vec4_num(op, f, a) { return Some(r); }
    if let Some(r) = pt1_num(op, f, a) { return Some(r); }
    if let Some(r) = pt2_num(op, f, a) { return Some(r); }
    if let Some(r) = pt3_num(op, f, a) { return Some(r); }
    Some(match (op, a) {
        // scalar-on-the-left impls exist per primitive type only
        ("s_mul", [N(k), x]) | ("s_div", [N(k), x]) | ("s_rem", [N(k), x]) => return <S as Sc>::sleft(op, f, *k, x),
        ("cross", [V3(x), V3(y)]) => V3(x.cross(*y)),
        ("perp_dot", [V2(x), V2(y)]) => N(x.perp_dot(*y)),
        ("extend", [V2(x), N(k)]) => V3(x.extend(*k)),
        ("extend", [V3(x), N(k)]) => V4(x.extend(*k)),
        ("truncate", [V3(x)]) => V2(x.truncate()),
        ("truncate", [V4(x)]) => V3(x.truncate()),
        ("truncate_n", [V4(x), I(n)]) => V3(x.truncate_n(*n as isize)),
        ("unit", [T(t), I(i)]) => match (t.as_str(), i) {
            ("Vector1", 0) => V1(Vector1::unit_x()),
            ("Vector2", 0) => V2(Vector2::unit_x()),
            ("Vector2", 1) => V2(Vector2::unit_y()),
            ("Vector3", 0) => V3(Vector3::unit_x()),
            ("Vector3", 1) => V3(Vector3::unit_y()),
            ("Vector3", 2) => V3(Vector3::unit_z()),
            ("Vector4", 0) => V4(Vector4::unit_x()),
            ("Vector4", 1) => V4(Vector4::unit_y()),
            ("Vector4", 2) => V4(Vector4::unit_z()),
            ("Vector4", 3) => V4(Vector4::unit_w()),
            _ => return None,
        },
        ("to_homogeneous", [P3(p)]) => V4(p.to_homogeneous()),
        ("from_homogeneous", [V4(v)]) => P3(Point3::from_homogeneous(*v)),
        // the embeddings of a smaller matrix into a larger one are BaseNum-generic
        ("embed", [M2(m), I(3)]) => M3(Matrix3::from(*m)),
        ("embed", [M2(m), I(4)]) => M4(Matrix4::from(*m)),
        ("embed", [M3(m), I(4)]) => M4(Matrix4::from(*m)),
        ("mat3_from_quat", [Q(q)]) => M3(Matrix3::from(*q)),
        ("mat4_from_quat", [Q(q)]) => M4(Matrix4::from(*q)),
        // constructors without trait bounds
        ("vec_new", xs) => match xs {
            [N(a)] => V1(Vector1::new(*a)),
            [N(a), N(b)] => V2(match f { "free" => vec2(*a, *b), _ => Vector2::new(*a, *b) }),
            [N(a), N(b), N(c)] => V3(match f { "free" => vec3(*a, *b, *c), _ => Vector3::new(*a, *b, *c) }),
            [N(a), N(b), N(c), N(d)] => V4(match f { "free" => vec4(*a, *b, *c, *d), _ => Vector4::new(*a, *b, *c, *d) }),
            _ => return None,
        },
        ("pt_new", xs) => match xs {
            [N(a)] => P1(Point1::new(*a)),
            [N(a), N(b)] => P2(match f { "free" => point2(*a, *b), _ => Point2::new(*a, *b) }),
            [N(a), N(b), N(c)] => P3(match f { "free" => point3(*a, *b, *c), _ => Point3::new(*a, *b, *c) }),
            _ => return None,
        },
        ("mat_new", xs) => {
            let mut s: Vec<S> = Vec::new();
            for x in xs { if let N(k) = x { s.push(*k) } else { return None } }
            match s.len() {
                4 => M2(Matrix2::new(s[0], s[1], s[2], s[3])),
                9 => M3(Matrix3::new(s[0], s[1], s[2], s[3], s[4], s[5], s[6], s[7], s[8])),
                16 => M4(Matrix4::new(s[0], s[1], s[2], s[3], s[4], s[5], s[6], s[7], s[8], s[9], s[10], s[11], s[12], s[13], s[14], s[15])),
                _ => return None,
            }
        }
        ("from_cols", [V2(a), V2(b)]) => M2(Matrix2::from_cols(*a, *b)),
        ("from_cols", [V3(a), V3(b), V3(c)]) => M3(Matrix3::from_cols(*a, *b, *c)),
        ("from_cols", [V4(a), V4(b), V4(c), V4(d)]) => M4(Matrix4::from_cols(*a, *b, *c, *d)),
        ("quat_new", [N(w), N(x), N(y), N(z)]) => Q(Quaternion::new(*w, *x, *y, *z)),
        ("from_sv", [N(w), V3(v)]) => Q(Quaternion::from_sv(*w, *v)),
        _ => return None,
    })
}

macro_rules! mat_flt {
    ($fname:ident, $M:ident, $MT:ident, $V:ident, $VT:ident, $n:expr) => {
        fn $fname<S: Sc + BaseFloat>(op: &str, f: &str, a: &[Val<S>]) -> Option<Val<S>> {
            use Val::*;
            Some(match (op, a) {
                ("add", [$M(x), $M(y)]) => $M(bin4a!(f, *x, *y, +, +=)),
                ("sub", [$M(x), $M(y)]) => $M(bin4a!(f, *x, *y, -, -=)),
                ("neg", [$M(x)]) => $M(match f { "v" => -*x, "r" => -x, _ => return None }),
                ("mul_s", [$M(x), N(k)]) => $M(bin2a!(f, *x, *k, *, *=)),
                ("div_s", [$M(x), N(k)]) => $M(bin2a!(f, *x, *k, /, /=)),
                ("rem_s", [$M(x), N(k)]) => $M(bin2a!(f, *x, *k, %, %=)),
                ("mul", [$M(x), $V(y)]) => $V(bin4!(f, *x, *y, *)),
                ("mul", [$M(x), $M(y)]) => $M(bin4!(f, *x, *y, *)),
                ("transpose", [$M(x)]) => $M(x.transpose()),
                ("transpose_self", [$M(x)]) => { let mut t = *x; t.transpose_self(); $M(t) }
                ("det", [$M(x)]) => N(x.determinant()),
                ("invert", [$M(x)]) => match x.invert() { Some(m) => OSome(Box::new($M(m))), None => ONone },
                ("trace", [$M(x)]) => N(x.trace()),
                ("diagonal", [$M(x)]) => $V(x.diagonal()),
                ("row", [$M(x), I(r)]) => $V(x.row(idx(*r))),
                ("col", [$M(x), I(c)]) => $V(x[idx(*c)]),
                ("swap_rows", [$M(x), I(i), I(j)]) => { let mut t = *x; t.swap_rows(idx(*i), idx(*j)); $M(t) }
                ("swap_cols", [$M(x), I(i), I(j)]) => { let mut t = *x; t.swap_columns(idx(*i), idx(*j)); $M(t) }
                ("swap_elems", [$M(x), I(ac), I(ar), I(bc), I(br)]) => {
                    let mut t = *x; Matrix::swap_elements(&mut t, (idx(*ac), idx(*ar)), (idx(*bc), idx(*br))); $M(t)
                }
                ("replace_col", [$M(x), I(c), $V(v)]) => { let mut t = *x; let old = t.replace_col(idx(*c), *v); Tup(vec![$M(t), $V(old)]) }
                ("mat_from_value", [T(t), N(k)]) if t == stringify!($MT) => $M(<$MT<S> as SquareMatrix>::from_value(*k)),
                ("from_diagonal", [$V(v)]) => $M($MT::from_diagonal(*v)),
                ("identity", [T(t)]) if t == stringify!($MT) => $M(match f { "one" => $MT::one(), _ => $MT::identity() }),
                ("zero", [T(t)]) if t == stringify!($MT) => $M($MT::zero()),
                ("lerp", [$M(x), $M(y), N(t)]) => $M(x.lerp(*y, *t)),
                ("inverse_transform_m", [$M(x)]) => return inv_tf(&$M(*x), f),
                ("iter_sum", [T(t), rest @ ..]) if t == stringify!($MT) => {
                    let mut xs: Vec<$MT<S>> = Vec::new();
                    for r in rest { if let $M(x) = r { xs.push(*x) } else { return None } }
                    $M(match f { "v" => xs.iter().cloned().sum(), "r" => xs.iter().sum(), _ => return None })
                }
                ("iter_product", [T(t), rest @ ..]) if t == stringify!($MT) => {
                    let mut xs: Vec<$MT<S>> = Vec::new();
                    for r in rest { if let $M(x) = r { xs.push(*x) } else { return None } }
                    $M(match f { "v" => xs.iter().cloned().product(), "r" => xs.iter().product(), _ => return None })
                }
                _ => return None,
            })
        }
    };
}
mat_flt!(mat2_flt, M2, Matrix2, V2, Vector2, 2);
mat_flt!(mat3_flt, M3, Matrix3, V3, Vector3, 3);
mat_flt!(mat4_flt, M4, Matrix4, V4, Vector4, 4);

// Transform::inverse_transform of a matrix used as a transform (C02): "2" = the Point2 impl of Matrix3
fn inv_tf<S: Sc + BaseFloat>(m: &Val<S>, f: &str) -> Option<Val<S>> {
    use Val::*;
    Some(match (m, f) {
        (M3(x), "2") => match <Matrix3<S> as Transform<Point2<S>>>::inverse_transform(x) { Some(r) => OSome(Box::new(M3(r))), _ => ONone },
        (M3(x), "3") => match <Matrix3<S> as Transform<Point3<S>>>::inverse_transform(x) { Some(r) => OSome(Box::new(M3(r))), _ => ONone },
        (M4(x), "3") => match <Matrix4<S> as Transform<Point3<S>>>::inverse_transform(x) { Some(r) => OSome(Box::new(M4(r))), _ => ONone },
        _ => return None,
    })
}

macro_rules! vec_neg {
    ($($V:ident),+) => {
        fn vec_signed<S: Sc + std::ops::Neg<Output = S>>(op: &str, _f: &str, a: &[Val<S>]) -> Option<Val<S>> {
            use Val::*;
            Some(match (op, a) {
                $(("neg", [$V(x)]) => $V(-*x),)+
                _ => return None,
            })
        }
    };
}
vec_neg!(V1, V2, V3, V4);
pub fn exec_signed<S: Sc + std::ops::Neg<Output = S>>(op: &str, f: &str, a: &[Val<S>]) -> Option<Val<S>> {
    vec_signed(op, f, a)
}

pub fn exec_flt_lin<S: Sc + BaseFloat>(op: &str, f: &str, a: &[Val<S>]) -> Option<Val<S>> {
    use Val::*;
    if let Some(r) = mat2_flt(op, f, a) { return Some(r); }
    if let Some(r) = mat3_flt(op, f, a) { return Some(r); }
    if let Some(r) = mat4_flt(op, f, a) { return Some(r); }
    Some(match (op, a) {
        ("from_translation", [V2(v)]) => M3(Matrix3::from_translation(*v)),
        ("from_translation", [V3(v)]) => M4(Matrix4::from_translation(*v)),
        ("from_scale", [T(t), N(k)]) if t == "Matrix3" => M3(Matrix3::from_scale(*k)),
        ("from_scale", [T(t), N(k)]) if t == "Matrix4" => M4(Matrix4::from_scale(*k)),
        ("from_nonuniform_scale", [N(x), N(y)]) => M3(Matrix3::from_nonuniform_scale(*x, *y)),
        ("from_nonuniform_scale", [N(x), N(y), N(z)]) => M4(Matrix4::from_nonuniform_scale(*x, *y, *z)),
        _ => return None,
    })
}
