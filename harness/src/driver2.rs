//! Hand-written program generators for the geometric families: rotations in four
//! representations, Euler angles, transforms, view and projection constructors,
//! metric operations, angles, interpolation and arcs.  Inputs are the constructions
//! the specification itself uses — rational points of the spheres S^1, S^2, S^3,
//! rational orthonormal frames, symbolic table angles — in general position.
use crate::ang::Sym;
use crate::driver::Rng;
use crate::machine::{is_bad, run_call, Outcome, NREG};
use crate::q::{isqrt, Q};
use crate::val::*;
use cgmath::*;

type V = Val<Q>;

/// program builder that executes at Q while it records
pub struct PB {
    regs: Vec<V>,
    init: Vec<V>,
    calls: Vec<String>,
    pub next: usize,
    pub qok: bool,    // every call so far was executable at Q
    pub fsafe: bool,  // replay at f64 is meaningful
    pub dead: bool,
    pub dead_after: bool, // a result left the magnitude budget: the program ends before it
    pub float_only: bool, // uses an op that exists for BaseFloat scalars only
}
impl PB {
    pub fn new() -> PB {
        PB { regs: vec![Val::Nil; NREG], init: vec![Val::Nil; NREG], calls: Vec::new(), next: 0, qok: true, fsafe: true, dead: false, dead_after: false, float_only: false }
    }
    pub fn load(&mut self, v: V) -> usize {
        if self.next >= NREG { self.dead = true; return 0; }
        let i = self.next;
        self.next += 1;
        self.regs[i] = v.clone();
        self.init[i] = v;
        i
    }
    /// record a call; returns the destination register
    pub fn call(&mut self, op: &str, f: &str, args: &[usize]) -> usize {
        if self.next >= NREG { self.dead = true; return 0; }
        let dst = self.next;
        self.next += 1;
        self.call_into(op, f, args, dst);
        dst
    }
    pub fn call_into(&mut self, op: &str, f: &str, args: &[usize], dst: usize) {
        if self.dead || self.dead_after { return; }
        let a1: Vec<String> = args.iter().map(|i| (i + 1).to_string()).collect();
        let rec = format!("{{\"op\":\"{}\",\"f\":\"{}\",\"a\":[{}],\"d\":{}}}", op, f, a1.join(","), dst + 1);
        if self.qok {
            let av: Vec<V> = args.iter().map(|&i| self.regs[i].clone()).collect();
            match run_call::<Q>(op, f, &av) {
                Outcome::Done(v) => {
                    let enc = std::panic::catch_unwind(std::panic::AssertUnwindSafe(|| v.enc())).unwrap_or_else(|_| "[0,0,0,0]".into());
                    if matches!(v, Val::ONone) && matches!(av.last(), Some(Val::M3(_)) | Some(Val::M4(_)) | Some(Val::M2(_))) { self.fsafe = false; }
                    if is_bad(&enc) { self.qok = false; }
                    else if crate::driver::maxmag_q(&v) > 20000 { self.dead_after = true; return; }
                    else { self.regs[dst] = v; }
                }
                Outcome::NotExecutable(_) => { self.qok = false; }
                // not an op of the exact scalar (serde, primitive-only impls): recorded, run at the other scalars only
                Outcome::Unsupported => { self.qok = false; }
            }
        }
        self.calls.push(rec);
    }
    pub fn reg(&self, i: usize) -> &V { &self.regs[i] }
    pub fn finish(self, pid: u64, scs: &[&str]) -> Option<String> {
        if self.dead || self.calls.is_empty() { return None; }
        let mut s: Vec<&str> = Vec::new();
        for &x in scs {
            if x == "Q" && !self.qok { continue; }
            if (x == "f64" || x == "f32") && !self.fsafe { continue; }
            if self.float_only && !(x == "Q" || x == "f64" || x == "f32") { continue; }
            s.push(x);
        }
        if s.is_empty() { return None; }
        let regs: Vec<String> = self.init.iter().map(|r| r.enc()).collect();
        let scj: Vec<String> = s.iter().map(|x| format!("\"{}\"", x)).collect();
        Some(format!("{{\"pid\":{},\"mode\":\"Geo\",\"sc\":[{}],\"regs\":[{}],\"calls\":[{}]}}", pid, scj.join(","), regs.join(","), self.calls.join(",")))
    }
}

// ------------------------------------------------------------------ rational spheres
pub struct Pools {
    pub u4: Vec<[i128; 5]>, // w,x,y,z,m with w^2+x^2+y^2+z^2 = m^2
    pub u3: Vec<[i128; 4]>,
    pub u2: Vec<[i128; 3]>,
}
pub fn pools() -> Pools {
    let mut u4 = Vec::new();
    let r = 6i128;
    for a in -r..=r { for b in -r..=r { for c in -r..=r { for d in -r..=r {
        let s = a * a + b * b + c * c + d * d;
        if s == 0 { continue; }
        if let Some(m) = isqrt(s) { if m <= 9 && crate::q::gcd(crate::q::gcd(a, b), crate::q::gcd(c, d)) == 1 { u4.push([a, b, c, d, m]); } }
    }}}}
    let mut u3 = Vec::new();
    let r = 9i128;
    for a in -r..=r { for b in -r..=r { for c in -r..=r {
        let s = a * a + b * b + c * c;
        if s == 0 { continue; }
        if let Some(m) = isqrt(s) { if m <= 11 && crate::q::gcd(crate::q::gcd(a, b), c) == 1 { u3.push([a, b, c, m]); } }
    }}}
    let mut u2 = Vec::new();
    let r = 24i128;
    for a in -r..=r { for b in -r..=r {
        let s = a * a + b * b;
        if s == 0 { continue; }
        if let Some(m) = isqrt(s) { if m <= 25 && crate::q::gcd(a, b) == 1 { u2.push([a, b, m]); } }
    }}
    Pools { u4, u3, u2 }
}
fn q(n: i128, d: i128) -> Q { Q::new(n, d) }
fn vs(x: Q) -> V { Val::N(x) }
fn uq(p: &Pools, rng: &mut Rng) -> Quaternion<Q> {
    let e = p.u4[rng.below(p.u4.len())];
    Quaternion::new(q(e[0], e[4]), q(e[1], e[4]), q(e[2], e[4]), q(e[3], e[4]))
}
fn uv3(p: &Pools, rng: &mut Rng) -> Vector3<Q> {
    let e = p.u3[rng.below(p.u3.len())];
    Vector3::new(q(e[0], e[3]), q(e[1], e[3]), q(e[2], e[3]))
}
fn uv2(p: &Pools, rng: &mut Rng) -> Vector2<Q> {
    let e = p.u2[rng.below(p.u2.len())];
    Vector2::new(q(e[0], e[2]), q(e[1], e[2]))
}
fn small(rng: &mut Rng) -> Q { q(rng.range(-6, 6) as i128, *rng.pick(&[1, 1, 1, 2, 2, 3, 4])) }
fn small_nz(rng: &mut Rng) -> Q { loop { let x = small(rng); if x.n != 0 { return x; } } }
fn small_pos(rng: &mut Rng) -> Q { q(rng.range(1, 6) as i128, *rng.pick(&[1, 1, 2, 3])) }
fn rv3(rng: &mut Rng) -> Vector3<Q> { Vector3::new(small(rng), small(rng), small(rng)) }
fn rv2(rng: &mut Rng) -> Vector2<Q> { Vector2::new(small(rng), small(rng)) }
fn sym(an: i64, k1: i64, k2: i64) -> Sym { Sym { an, ad: 1, k1, k2 } }
fn ang_val_(s: Sym, rng: &mut Rng) -> V {
    // the same symbolic angle in either unit
    if rng.chance(1, 2) { Val::ARad(Rad(<Q as crate::sc::Sc>::dec_ang(s, crate::ang::Unit::Rad))) }
    else { Val::ADeg(Deg(<Q as crate::sc::Sc>::dec_ang(s, crate::ang::Unit::Deg))) }
}
fn rad_val(s: Sym) -> V { Val::ARad(Rad(<Q as crate::sc::Sc>::dec_ang(s, crate::ang::Unit::Rad))) }
fn deg_val(s: Sym) -> V { Val::ADeg(Deg(<Q as crate::sc::Sc>::dec_ang(s, crate::ang::Unit::Deg))) }
/// a table angle; `even` = all coefficients even, so that the half angle is a table angle too
fn rsym(rng: &mut Rng, even: bool, kmax: i64) -> Sym {
    let m = if even { 2 } else { 1 };
    sym(rng.range(-2, 2) * m, rng.range(-kmax, kmax) * m, 0)
}
fn t(s: &str) -> V { Val::T(s.to_string()) }
/// rational orthonormal right-handed frame (columns of the matrix of a rational unit quaternion)
fn frame(p: &Pools, rng: &mut Rng) -> (Vector3<Q>, Vector3<Q>, Vector3<Q>) {
    let m = Matrix3::from(uq(p, rng));
    (m.x, m.y, m.z)
}
const ROT3: &[&str] = &["Matrix3", "Matrix4", "Basis3", "Quaternion"];

// ------------------------------------------------------------------ C01: the action of the homogeneous constructors
// from_translation / from_scale / from_nonuniform_scale / the embedding of a dense linear part, and their products in
// either order, applied to a point and to a vector through every Transform implementation of a matrix
// (Matrix3 acting on Point2, Matrix4 acting on Point3) and, for comparison, as the plain product with the
// homogeneous column (w = 1 for points, w = 0 for vectors).
fn gen_c01(_p: &Pools, rng: &mut Rng, pb: &mut PB) {
    let dim = 2 + rng.below(2);
    let nzv2 = |rng: &mut Rng| Vector2::new(small_nz(rng), small_nz(rng));
    let nzv3 = |rng: &mut Rng| Vector3::new(small_nz(rng), small_nz(rng), small_nz(rng));
    let (off, pt, vc, hp, hv) = if dim == 2 {
        let (o, p, v) = (nzv2(rng), nzv2(rng), nzv2(rng));
        (pb.load(Val::V2(o)), pb.load(Val::P2(Point2::from_vec(p))), pb.load(Val::V2(v)), pb.load(Val::V3(p.extend(q(1, 1)))), pb.load(Val::V3(v.extend(q(0, 1)))))
    } else {
        let (o, p, v) = (nzv3(rng), nzv3(rng), nzv3(rng));
        (pb.load(Val::V3(o)), pb.load(Val::P3(Point3::from_vec(p))), pb.load(Val::V3(v)), pb.load(Val::V4(p.extend(q(1, 1)))), pb.load(Val::V4(v.extend(q(0, 1)))))
    };
    let tm = pb.call("from_translation", "m", &[off]);
    let ty = pb.load(t(if dim == 2 { "Matrix3" } else { "Matrix4" }));
    let lin = match rng.below(3) {
        0 => { let k = pb.load(vs(small_nz(rng))); pb.call("from_scale", "m", &[ty, k]) }
        1 => { let ks: Vec<usize> = (0..dim).map(|_| pb.load(vs(small_nz(rng)))).collect(); pb.call("from_nonuniform_scale", "m", &ks) }
        _ => {
            let m = if dim == 2 { pb.load(Val::M2(Matrix2::from_cols(nzv2(rng), nzv2(rng)))) } else { pb.load(Val::M3(Matrix3::from_cols(nzv3(rng), nzv3(rng), nzv3(rng)))) };
            let n = pb.load(Val::I(dim as i64 + 1));
            pb.call("embed", "m", &[m, n])
        }
    };
    let a = pb.call("mul", *rng.pick(&["vv", "rv", "vr", "rr"]), &[tm, lin]);
    let b = pb.call("mul", *rng.pick(&["vv", "rv", "vr", "rr"]), &[lin, tm]);
    // four scratch registers receive the results (the trace records every one of them)
    let (s1, s2, s3, s4) = (pb.load(Val::Nil), pb.load(Val::Nil), pb.load(Val::Nil), pb.load(Val::Nil));
    for &m in &[tm, lin, a, b] {
        pb.call_into("transform_point", "m", &[m, pt], s1);
        pb.call_into("transform_vector", "m", &[m, vc], s2);
        pb.call_into("mul", "vv", &[m, hp], s3);
        pb.call_into("mul", "vv", &[m, hv], s4);
    }
    if rng.chance(1, 2) { pb.call_into("inverse_transform_vector", "m", &[a, vc], s1); }
}

/// C05 / C06 at small angles (pipeline C)
fn gen_small_rot(p: &Pools, rng: &mut Rng, pb: &mut PB) {
    if rng.chance(1, 5) {
        let ty = *rng.pick(&["Basis2", "Matrix2"]);
        let a = [pb.load(t(ty)), pb.load(t(*rng.pick(&["direct", "invert", "compose"]))), pb.load(Val::V2(uv2(p, rng))), pb.load(Val::I(rng.range(0, 9)))];
        pb.call("small_rot_proj", "m", &a);
        return;
    }
    let ty = *rng.pick(ROT3);
    let routes: &[&str] = match ty {
        "Quaternion" => &["direct", "from_angle", "euler", "to_euler", "rotate_vector", "invert", "compose", "via_mat3", "via_basis3", "via_mat4"],
        "Matrix3" => &["direct", "from_angle", "euler", "invert", "compose", "via_quat", "via_basis3", "via_mat4"],
        "Basis3" => &["direct", "from_angle", "euler", "rotate_vector", "invert", "compose", "via_quat", "via_mat3"],
        _ => &["direct", "from_angle", "euler", "invert", "compose", "via_quat"],
    };
    let route = *rng.pick(routes);
    let (n, v) = if route == "from_angle" || route == "euler" || route == "to_euler" {
        let z = q(0, 1); let o = q(1, 1);
        let e = [Vector3::new(o, z, z), Vector3::new(z, o, z), Vector3::new(z, z, o)];
        let i = rng.below(3);
        // v: a rational unit vector perpendicular to the coordinate axis
        let u = uv2(p, rng);
        let v = match i { 0 => Vector3::new(z, u.x, u.y), 1 => Vector3::new(u.x, z, u.y), _ => Vector3::new(u.x, u.y, z) };
        (e[i], v)
    } else { let (e1, _e2, e3) = frame(p, rng); (e3, e1) };
    // Euler extraction is exact only outside the gimbal-lock cone: no angle next to a quarter turn there (index 7)
    let dc = loop { let i = rng.range(0, 11); if !(route == "to_euler" && i == 7) { break i; } };
    let a = [pb.load(t(ty)), pb.load(t(route)), pb.load(Val::V3(n)), pb.load(Val::V3(v)), pb.load(Val::I(dc))];
    pb.call("small_rot_proj", "m", &a);
}

// ------------------------------------------------------------------ C05
fn gen_c05(p: &Pools, rng: &mut Rng, pb: &mut PB) {
    if rng.chance(1, 5) { gen_small_rot(p, rng, pb); return; }
    let a = uq(p, rng);
    let ra = pb.load(Val::Q(a));
    match rng.below(5) {
        0 => {
            // all four representations rotate a vector the same way
            let v = pb.load(Val::V3(rv3(rng)));
            let m3 = pb.call("mat3_from_quat", "m", &[ra]);
            let b3 = pb.call("basis3_from_quat", if rng.chance(1, 2) { "from" } else { "ref" }, &[ra]);
            pb.call("mul", "vv", &[ra, v]);
            pb.call("rotate_vector", "m", &[b3, v]);
            pb.call("mul", *rng.pick(&["vv", "rv", "vr", "rr"]), &[m3, v]);
            pb.call("mat4_from_quat", "m", &[ra]);
        }
        1 => {
            // back to a quaternion: q or -q, whichever of the four cases applies
            let m3 = pb.call("mat3_from_quat", "m", &[ra]);
            pb.call("quat_from_mat3", "m", &[m3]);
            let b3 = pb.call("basis3_from_quat", "from", &[ra]);
            pb.call("quat_from_basis3", "m", &[b3]);
            pb.call("mat_from_basis", if rng.chance(1, 2) { "from" } else { "asref" }, &[b3]);
            pb.call("det", "m", &[m3]);
        }
        2 => {
            // conversion respects composition
            let rb = pb.load(Val::Q(uq(p, rng)));
            let ab = pb.call("mul", *rng.pick(&["vv", "rv", "vr", "rr"]), &[ra, rb]);
            let ma = pb.call("mat3_from_quat", "m", &[ra]);
            let mb = pb.call("mat3_from_quat", "m", &[rb]);
            pb.call("mat3_from_quat", "m", &[ab]);
            pb.call("mul", "vv", &[ma, mb]);
            pb.call("quat_from_mat3", "m", &[ma]);
        }
        3 => {
            let rb = pb.load(Val::Q(uq(p, rng)));
            let ba = pb.call("basis3_from_quat", "ref", &[ra]);
            let bb = pb.call("basis3_from_quat", "from", &[rb]);
            let bab = pb.call("mul", *rng.pick(&["vv", "rv", "vr", "rr"]), &[ba, bb]);
            pb.call("quat_from_basis3", "m", &[bab]);
            pb.call("rot_invert", "m", &[bab]);
            let pt = pb.load(Val::P3(Point3::from_vec(rv3(rng))));
            pb.call("rotate_point", "m", &[bab, pt]);
        }
        _ => {
            // quaternion of a product of rotation matrices (exercises the branches on composed rotations)
            let rb = pb.load(Val::Q(uq(p, rng)));
            let ma = pb.call("mat3_from_quat", "m", &[ra]);
            let mb = pb.call("mat3_from_quat", "m", &[rb]);
            let mm = pb.call("mul", "rr", &[ma, mb]);
            pb.call("quat_from_mat3", "m", &[mm]);
            pb.call("transpose", "m", &[mm]);
            pb.call("trace", "m", &[mm]);
        }
    }
}

// ------------------------------------------------------------------ C06
fn gen_c06(p: &Pools, rng: &mut Rng, pb: &mut PB) {
    if rng.chance(1, 5) { gen_small_rot(p, rng, pb); return; }
    match rng.below(5) {
        0 => {
            let ax = pb.load(Val::V3(uv3(p, rng)));
            let ty = *rng.pick(ROT3);
            let ev = ty == "Quaternion" || rng.chance(1, 2);
            let s = rsym(rng, ev, 1);
            let an = pb.load(ang_val_(s, rng));
            let tt = pb.load(t(ty));
            let r = pb.call("from_axis_angle", "m", &[tt, ax, an]);
            let v = pb.load(Val::V3(rv3(rng)));
            match ty {
                "Matrix3" => { pb.call("mul", "vv", &[r, v]); pb.call("det", "m", &[r]); }
                "Matrix4" => { let z = pb.load(vs(q(0, 1))); let v4 = pb.call("extend", "m", &[v, z]); pb.call("mul", "vv", &[r, v4]); }
                "Basis3" => { pb.call("rotate_vector", "m", &[r, v]); pb.call("rot_invert", "m", &[r]); }
                _ => { pb.call("rotate_vector", "m", &[r, v]); pb.call("rot_invert", "m", &[r]); pb.call("mat3_from_quat", "m", &[r]); }
            }
        }
        1 => {
            let ty = *rng.pick(ROT3);
            let s = rsym(rng, ty == "Quaternion", 2);
            let an = pb.load(ang_val_(s, rng));
            let tt = pb.load(t(ty));
            let op = *rng.pick(&["from_angle_x", "from_angle_y", "from_angle_z"]);
            let r = pb.call(op, "m", &[tt, an]);
            if ty == "Quaternion" || ty == "Basis3" {
                let pt = pb.load(Val::P3(Point3::from_vec(rv3(rng))));
                pb.call("rotate_point", "m", &[r, pt]);
            }
        }
        2 => {
            let ty = *rng.pick(&["Matrix2", "Basis2"]);
            let an = pb.load(ang_val_(rsym(rng, false, 2), rng));
            let tt = pb.load(t(ty));
            let r = pb.call("from_angle", "m", &[tt, an]);
            let v = pb.load(Val::V2(rv2(rng)));
            if ty == "Basis2" {
                pb.call("rotate_vector", "m", &[r, v]);
                let ri = pb.call("rot_invert", "m", &[r]);
                pb.call("mul", *rng.pick(&["vv", "rv", "vr", "rr"]), &[r, ri]);
                let pt = pb.load(Val::P2(Point2::from_vec(rv2(rng))));
                pb.call("rotate_point", "m", &[r, pt]);
                pb.call("mat_from_basis", if rng.chance(1, 2) { "from" } else { "asref" }, &[r]);
            } else {
                pb.call("mul", "vv", &[r, v]);
            }
        }
        3 => {
            // angles add under composition about a common axis
            let ax = pb.load(Val::V3(uv3(p, rng)));
            let ty = *rng.pick(&["Matrix3", "Basis3", "Quaternion"]);
            let even = ty == "Quaternion";
            let a1 = pb.load(ang_val_(rsym(rng, even, 1), rng));
            let a2 = pb.load(ang_val_(rsym(rng, even, 1), rng));
            let tt = pb.load(t(ty));
            let r1 = pb.call("from_axis_angle", "m", &[tt, ax, a1]);
            let r2 = pb.call("from_axis_angle", "m", &[tt, ax, a2]);
            pb.call("mul", *rng.pick(&["vv", "rv", "vr", "rr"]), &[r1, r2]);
        }
        _ => {
            let ty = *rng.pick(&["Basis3", "Quaternion", "Basis2"]);
            let tt = pb.load(t(ty));
            let one = pb.call("rot_one", "m", &[tt]);
            if ty == "Basis2" {
                let an = pb.load(ang_val_(rsym(rng, false, 2), rng));
                let r = pb.call("from_angle", "m", &[tt, an]);
                pb.call("iter_product", *rng.pick(&["v", "r"]), &[tt, r, one, r]);
            } else {
                // products of rotations about DIFFERENT axes do not commute: the fold order is observable
                // (coordinate axes keep the denominators of the product inside the model's budget)
                let an = pb.load(ang_val_(sym(*rng.pick(&[0i64, 2]), *rng.pick(&[2i64, -2]), 0), rng));
                let r = pb.call(*rng.pick(&["from_angle_x", "from_angle_z"]), "m", &[tt, an]);
                let an2 = pb.load(ang_val_(sym(*rng.pick(&[0i64, -2]), *rng.pick(&[2i64, -2]), 0), rng));
                let r2 = pb.call("from_angle_y", "m", &[tt, an2]);
                let f = *rng.pick(&["v", "r"]);
                if rng.chance(1, 2) { pb.call("iter_product", f, &[tt, r, r2]); } else { pb.call("iter_product", f, &[tt, r2, one, r]); }
                pb.call("iter_product", f, &[tt]);
            }
        }
    }
}

// ------------------------------------------------------------------ C07
fn euler_val_(x: Sym, y: Sym, z: Sym, rng: &mut Rng) -> V {
    use crate::ang::Unit;
    use crate::sc::Sc;
    if rng.chance(1, 2) {
        Val::ERad(Euler::new(Rad(Q::dec_ang(x, Unit::Rad)), Rad(Q::dec_ang(y, Unit::Rad)), Rad(Q::dec_ang(z, Unit::Rad))))
    } else {
        Val::EDeg(Euler::new(Deg(Q::dec_ang(x, Unit::Deg)), Deg(Q::dec_ang(y, Unit::Deg)), Deg(Q::dec_ang(z, Unit::Deg))))
    }
}
fn gimbal_pool() -> Vec<[i128; 5]> {
    // rational unit quaternions whose rotation has |sin y| = |2(xz + yw)| in (0.99, 1): inside and just outside the gimbal-lock cone
    let mut v = Vec::new();
    let r = 12i128;
    for w in -r..=r { for x in -r..=r { for y in -r..=r { for z in -r..=r {
        let s = w * w + x * x + y * y + z * z;
        if s == 0 { continue; }
        if let Some(m) = isqrt(s) {
            let sy = 2 * (x * z + y * w);
            if 1000 * sy.abs() > 990 * s && sy.abs() < s && m <= 25 { v.push([w, x, y, z, m]); }
        }
    }}}}
    v
}
thread_local! { static GIMBAL: Vec<[i128; 5]> = gimbal_pool(); }
fn gen_c07(p: &Pools, rng: &mut Rng, pb: &mut PB) {
    if rng.chance(1, 8) { gen_small_rot(p, rng, pb); return; }
    if rng.chance(1, 3) {
        // pipeline C: extraction on arbitrary rational unit quaternions, including the inside of the gimbal-lock cone
        let e = if rng.chance(1, 2) { GIMBAL.with(|g| if g.is_empty() { p.u4[0] } else { g[rng.below(g.len())] }) } else { p.u4[rng.below(p.u4.len())] };
        let qq = Quaternion::new(q(e[0], e[4]), q(e[1], e[4]), q(e[2], e[4]), q(e[3], e[4]));
        let r = pb.load(Val::Q(qq));
        pb.call("euler_proj", "m", &[r]);
        return;
    }
    match rng.below(4) {
        0 => {
            let ty = *rng.pick(ROT3);
            let even = ty == "Quaternion";
            let e = pb.load(euler_val_(rsym(rng, even, 1), rsym(rng, even, 1), rsym(rng, even, 1), rng));
            let tt = pb.load(t(ty));
            let r = pb.call("from_euler", "m", &[tt, e]);
            if ty == "Matrix3" { pb.call("det", "m", &[r]); }
        }
        1 => {
            // all four agree with Rx * Ry * Rz
            let (x, y, z) = (rsym(rng, true, 1), rsym(rng, true, 1), rsym(rng, true, 1));
            let e = pb.load(euler_val_(x, y, z, rng));
            let (ax, ay, az) = (pb.load(ang_val_(x, rng)), pb.load(ang_val_(y, rng)), pb.load(ang_val_(z, rng)));
            let tm = pb.load(t("Matrix3"));
            let mx = pb.call("from_angle_x", "m", &[tm, ax]);
            let my = pb.call_reuse("from_angle_y", "m", &[tm, ay], ax);
            let mz = pb.call_reuse("from_angle_z", "m", &[tm, az], ay);
            let mxy = pb.call_reuse("mul", "vv", &[mx, my], az);
            pb.call_reuse("mul", "vv", &[mxy, mz], mx);
            pb.call_reuse("from_euler", "m", &[tm, e], my);
        }
        2 => {
            // extraction away from the gimbal-lock cone: x, z in (-180, 180], y in [-90, 90], table half angles
            let x = sym(rng.range(-1, 1) * 2, rng.range(-1, 1) * 2, 0);
            let y = *rng.pick(&[sym(0, 0, 0), sym(0, 2, 0), sym(0, -2, 0), sym(-2, 4, 0), sym(2, -4, 0), sym(2, -2, 0), sym(-2, 2, 0)]);
            let z = sym(rng.range(-1, 1) * 2, rng.range(-1, 1) * 2, 0);
            let e = pb.load(euler_val_(x, y, z, rng));
            let tq = pb.load(t("Quaternion"));
            let qq = pb.call("from_euler", "m", &[tq, e]);
            let er = pb.call("euler_from_quat", "m", &[qq]);
            let tm = pb.load(t("Matrix3"));
            pb.call("from_euler", "m", &[tm, er]);
            pb.call("mat3_from_quat", "m", &[qq]);
        }
        _ => {
            // on the gimbal-lock axis: y = +-90 degrees exactly
            let x = sym(rng.range(-1, 1) * 2, rng.range(-1, 1) * 2, 0);
            let y = sym(*rng.pick(&[1, -1]), 0, 0);
            let z = sym(rng.range(-1, 1) * 2, rng.range(-1, 1) * 2, 0);
            // quaternion built as qx * qy * qz from axis-angle constructors (half angles: x, z even; y = 90 needs 45: use matrices instead)
            let e = pb.load(euler_val_(x, y, z, rng));
            let tm = pb.load(t("Matrix3"));
            let m = pb.call("from_euler", "m", &[tm, e]);
            let qq = pb.call("quat_from_mat3", "m", &[m]);
            pb.call("euler_from_quat", "m", &[qq]);
        }
    }
}
impl PB {
    /// like `call`, but overwrites a register that is no longer needed
    pub fn call_reuse(&mut self, op: &str, f: &str, args: &[usize], dst: usize) -> usize {
        self.call_into(op, f, args, dst);
        dst
    }
}

// ------------------------------------------------------------------ C08
fn dec_scale(rng: &mut Rng) -> Q {
    match rng.below(8) { 0 => q(0, 1), 1 => q(-2, 1), 2 => q(-1, 2), 3 => q(3, 2), 5 => q(2, 1), _ => small_nz(rng) }
}
fn dec_val(p: &Pools, rng: &mut Rng, kind: &str, scale: Q) -> V {
    match kind {
        "DecQ" => Val::DQ(Decomposed { scale, rot: uq(p, rng), disp: rv3(rng) }),
        "Dec3" => Val::D3(Decomposed { scale, rot: basis3_from(Matrix3::from(uq(p, rng))), disp: rv3(rng) }),
        _ => { let u = uv2(p, rng); Val::D2(Decomposed { scale, rot: basis2_from(Matrix2::new(u.x, u.y, -u.y, u.x)), disp: rv2(rng) }) }
    }
}
fn gen_c08(p: &Pools, rng: &mut Rng, pb: &mut PB) {
    if rng.chance(1, 8) {
        // small scales and tiny determinants in native arithmetic (pipeline C)
        let kind = *rng.pick(&["Matrix4", "Matrix4_invert", "Matrix3", "Matrix3_invert", "DecQ", "Dec3", "DecQ_vector"]);
        let mut scales = vec![q(3, 1_000_000), q(-5, 2_000_000), q(1, 100_000), q(-1, 10_000), q(1, 250)];
        if kind.starts_with("Matrix") { scales.push(q(1, 10_000_000)); scales.push(q(-1, 100_000_000)); }
        let sc = *rng.pick(&scales);
        let nz3 = |rng: &mut Rng| Vector3::new(small_nz(rng), small_nz(rng), small_nz(rng));
        let a = [pb.load(t(kind)), pb.load(vs(sc)), pb.load(Val::Q(uq(p, rng))), pb.load(Val::V3(nz3(rng))), pb.load(Val::V3(nz3(rng)))];
        pb.call("tiny_inv_proj", "m", &a);
        return;
    }
    let kind = *rng.pick(&["DecQ", "Dec3", "Dec2", "Matrix3_2", "Matrix3_3", "Matrix4", "DecQ", "Dec3"]);
    let tt = pb.load(t(kind));
    if kind.starts_with("Dec") && rng.chance(1, 12) {
        // a negligibly small but non-zero scale: inverse_transform may be None or the true inverse
        let tiny = q(if rng.chance(1, 2) { 1 } else { -1 }, 2_000_000);
        let d = match dec_val(p, rng, kind, tiny) {
            Val::DQ(mut d) => { d.disp = Vector3::new(q(0, 1), q(0, 1), q(0, 1)); Val::DQ(d) }
            Val::D3(mut d) => { d.disp = Vector3::new(q(0, 1), q(0, 1), q(0, 1)); Val::D3(d) }
            Val::D2(mut d) => { d.disp = Vector2::new(q(0, 1), q(0, 1)); Val::D2(d) }
            x => x,
        };
        let s = pb.load(d);
        pb.call("inverse_transform", "m", &[tt, s]);
        let vc = if kind == "Dec2" { pb.load(Val::V2(rv2(rng))) } else { pb.load(Val::V3(rv3(rng))) };
        pb.call("inverse_transform_vector", "m", &[s, vc]);
        return;
    }
    let is_dec = kind.starts_with("Dec");
    let dim = if kind == "Dec2" || kind == "Matrix3_2" { 2 } else { 3 };
    let mk = |rng: &mut Rng, nz: bool| -> V {
        if is_dec { let s = if nz { small_nz(rng) } else { dec_scale(rng) }; dec_val(p, rng, kind, s) }
        else {
            // affine matrices in general position (dense linear part, oblique translation); sometimes singular
            match kind {
                "Matrix3_2" => { let (a, b, c, d) = (small(rng), small(rng), small(rng), if nz || rng.chance(4, 5) { small(rng) } else { q(0, 1) });
                                 let dd = if !nz && rng.chance(1, 8) { c * b / (if a.n == 0 { q(1, 1) } else { a }) } else { d };
                                 Val::M3(Matrix3::new(a, b, q(0, 1), c, dd, q(0, 1), small(rng), small(rng), q(1, 1))) }
                "Matrix3_3" => { let (x, y) = (rv3(rng), rv3(rng)); let z = if !nz && rng.chance(1, 8) { x + y } else { rv3(rng) }; Val::M3(Matrix3::from_cols(x, y, z)) }
                _ => { let (x, y) = (rv3(rng), rv3(rng)); let z = if !nz && rng.chance(1, 8) { x - y } else { rv3(rng) }; let w = rv3(rng);
                       Val::M4(Matrix4::from_cols(x.extend(q(0, 1)), y.extend(q(0, 1)), z.extend(q(0, 1)), w.extend(q(1, 1)))) }
            }
        }
    };
    let s = pb.load(mk(rng, false));
    let pt = if dim == 2 { pb.load(Val::P2(Point2::from_vec(rv2(rng)))) } else { pb.load(Val::P3(Point3::from_vec(rv3(rng)))) };
    let vc = if dim == 2 { pb.load(Val::V2(rv2(rng))) } else { pb.load(Val::V3(rv3(rng))) };
    match rng.below(4) {
        0 => {
            let u = pb.load(mk(rng, true));
            let st = pb.call("concat", *rng.pick(&["m", "self"]), &[tt, s, u]);
            pb.call("transform_point", "m", &[st, pt]);
            let tp = pb.call("transform_point", "m", &[u, pt]);
            pb.call_reuse("transform_point", "m", &[s, tp], tp);
            if is_dec { pb.call_reuse("mul", "vv", &[s, u], st); }
        }
        1 => {
            pb.call("transform_vector", "m", &[s, vc]);
            pb.call("transform_point", "m", &[s, pt]);
            let inv = pb.call("inverse_transform", "m", &[tt, s]);
            let _ = inv;
            pb.call("inverse_transform_vector", "m", &[s, vc]);
        }
        2 => {
            let one = pb.call("tf_one", "m", &[tt]);
            pb.call("transform_point", "m", &[one, pt]);
            let c1 = pb.call("concat", "m", &[tt, s, one]);
            pb.call_reuse("concat", "self", &[tt, one, s], c1);
        }
        _ => {
            if is_dec {
                let m = pb.call("mat_from_dec", "m", &[s]);
                let u = pb.load(mk(rng, true));
                let mu = pb.call("mat_from_dec", "m", &[u]);
                pb.call_reuse("mul", "vv", &[m, mu], mu);
                let su = pb.call("concat", "m", &[tt, s, u]);
                pb.call_reuse("mat_from_dec", "m", &[su], su);
            } else {
                let u = pb.load(mk(rng, true));
                let su = pb.call("concat", "m", &[tt, s, u]);
                pb.call("transform_vector", "m", &[su, vc]);
                pb.call("inverse_transform", "m", &[tt, su]);
            }
        }
    }
}

// ------------------------------------------------------------------ C09
fn gen_c09(p: &Pools, rng: &mut Rng, pb: &mut PB) {
    if rng.chance(1, 3) {
        // general position: arbitrary rational eye / direction / up (normalisations are not exact); judged through projections
        let (mut dir, mut up) = (rv3(rng), rv3(rng));
        let c = dir.cross(up);
        if c.x.n == 0 && c.y.n == 0 && c.z.n == 0 { return; }
        // the constructors are homogeneous of degree 0 in `up` and in `dir`: a very short (or long) up or direction is as valid as a unit one
        if rng.chance(1, 3) {
            let iv = |rng: &mut Rng| Vector3::new(Q::int(rng.range(-6, 6) as i128), Q::int(rng.range(-6, 6) as i128), Q::int(rng.range(-6, 6) as i128));
            let u0 = iv(rng);
            let c0 = dir.cross(u0);
            if c0.x.n == 0 && c0.y.n == 0 && c0.z.n == 0 { return; }
            up = u0 * *rng.pick(&[q(1, 1_000_000_000), q(1, 10_000), q(1, 100_000_000), q(1000, 1)]);
            if rng.chance(1, 2) { dir = dir * *rng.pick(&[q(1, 1000), q(1000, 1), q(1, 100_000)]); }
        }
        let eye = Point3::from_vec(rv3(rng));
        let (d, u, e, c2) = (pb.load(Val::V3(dir)), pb.load(Val::V3(up)), pb.load(Val::P3(eye)), pb.load(Val::P3(eye + dir)));
        let (inner, form, rest): (&str, &str, Vec<usize>) = match rng.below(5) {
            0 => ("mat3_look_to", *rng.pick(&["lh", "rh", "dep"]), vec![d, u]),
            1 => ("mat4_look_to", *rng.pick(&["lh", "rh", "dep"]), vec![e, d, u]),
            2 => ("mat4_look_at", *rng.pick(&["lh", "rh", "dep"]), vec![e, c2, u]),
            3 => { let tt = pb.load(t(*rng.pick(&["Quaternion", "Basis3"]))); ("rot_look_at", "m", vec![tt, d, u]) }
            _ => { let tt = pb.load(t(*rng.pick(&["Matrix4", "Matrix3_3", "DecQ", "Dec3"]))); ("tf_look_at", *rng.pick(&["dep", "rh", "lh"]), vec![tt, e, c2, u]) }
        };
        let mut a = vec![pb.load(t(inner)), pb.load(t(form))];
        a.extend(rest);
        pb.call("look_proj", "m", &a);
        return;
    }
    if rng.chance(1, 4) {
        // 2-D
        let u = uv2(p, rng);
        let dir = Vector2::new(u.x, u.y) * small_pos(rng);
        let up = rv2(rng);
        if up.perp_dot(dir).n == 0 { return; }
        let d = pb.load(Val::V2(dir));
        let upr = pb.load(Val::V2(up));
        match rng.below(4) {
            0 => { let tt = pb.load(t("Matrix2")); pb.call("look_at2", "m", &[tt, d, upr]); }
            1 => { let tt = pb.load(t("Basis2")); pb.call("rot_look_at", "m", &[tt, d, upr]); }
            2 => { let tt = pb.load(t(*rng.pick(&["Matrix2", "Basis2"]))); let fl = pb.load(Val::B(rng.chance(1, 2))); pb.call("look_at_stable", "m", &[tt, d, fl]); }
            _ => {
                let eye = Point2::from_vec(rv2(rng));
                let e = pb.load(Val::P2(eye));
                let c = pb.load(Val::P2(eye + dir));
                let tt = pb.load(t(*rng.pick(&["Matrix3_2", "Dec2"])));
                pb.call("tf_look_at", *rng.pick(&["dep", "rh", "lh"]), &[tt, e, c, upr]);
            }
        }
        return;
    }
    // exact frames: dir = a*f, up = b*u + c*f with (s, u, f) a rational orthonormal frame, so every normalisation is exact
    let (_s, u, f) = frame(p, rng);
    let dir = f * small_pos(rng);
    let up = u * small_pos(rng) + f * small(rng);
    let eye = Point3::from_vec(rv3(rng));
    let d = pb.load(Val::V3(dir));
    let upr = pb.load(Val::V3(up));
    let e = pb.load(Val::P3(eye));
    match rng.below(5) {
        0 => { pb.call("mat3_look_to", *rng.pick(&["lh", "rh", "dep"]), &[d, upr]); }
        1 => { let r = pb.call("mat4_look_to", *rng.pick(&["lh", "rh", "dep"]), &[e, d, upr]); pb.call("transform_point", "m", &[r, e]); }
        2 => { let c = pb.load(Val::P3(eye + dir)); pb.call("mat4_look_at", *rng.pick(&["lh", "rh", "dep"]), &[e, c, upr]); }
        3 => { let tt = pb.load(t(*rng.pick(&["Quaternion", "Basis3"]))); let r = pb.call("rot_look_at", "m", &[tt, d, upr]); pb.call("rotate_vector", "m", &[r, d]); }
        _ => {
            let c = pb.load(Val::P3(eye + dir));
            let tt = pb.load(t(*rng.pick(&["Matrix4", "Matrix3_3", "DecQ", "Dec3"])));
            let r = pb.call("tf_look_at", *rng.pick(&["dep", "rh", "lh"]), &[tt, e, c, upr]);
            pb.call("transform_point", "m", &[r, e]);
        }
    }
}

// ------------------------------------------------------------------ C10
fn gen_c10(_p: &Pools, rng: &mut Rng, pb: &mut PB) {
    if rng.chance(1, 8) {
        // near and far a hair apart (pipeline C)
        let ctor = *rng.pick(&["perspective", "perspective_fov", "frustum", "perspective_struct", "ortho", "planar"]);
        let n = *rng.pick(&[q(1, 2), q(1, 1), q(3, 1), q(10, 1), q(250, 1), q(1, 16)]);
        let a = [pb.load(t(ctor)), pb.load(vs(n)), pb.load(Val::I(rng.range(0, 3)))];
        pb.call("slab_proj", "m", &a);
        return;
    }
    let lo = |rng: &mut Rng| q(rng.range(-7, 2) as i128, *rng.pick(&[1, 2, 1, 3]));
    let l = lo(rng); let r = l + small_pos(rng);
    let b = lo(rng); let tp = b + small_pos(rng);
    let n = small_pos(rng); let f = n + small_pos(rng);
    let form = *rng.pick(&["fn", "struct"]);
    // fovy = 2g with g a table angle in (0, 90): half angle has rational tangent
    let fovy = *rng.pick(&[sym(0, 2, 0), sym(2, -2, 0), sym(0, 4, 0) /* > 180: invalid for perspective */, sym(-2, 4, 0), sym(4, -4, 0), sym(4, -6, 0)]);
    match rng.below(7) {
        0 => { let a: Vec<usize> = [l, r, b, tp, n, f].iter().map(|x| pb.load(vs(*x))).collect(); let m = pb.call("ortho", form, &a);
               let pt = pb.load(Val::P3(Point3::new(l, tp, -f))); pb.call("transform_point", "m", &[m, pt]); }
        1 => { let a: Vec<usize> = [l, r, b, tp, n, f].iter().map(|x| pb.load(vs(*x))).collect(); let m = pb.call("frustum", form, &a);
               let pt = pb.load(Val::P3(Point3::new(r, b, -n))); pb.call("transform_point", "m", &[m, pt]); }
        2 => {
            // frustum rejection: violate exactly one precondition
            let mut v = [l, r, b, tp, n, f];
            match rng.below(3) { 0 => v.swap(0, 1), 1 => v.swap(2, 3), _ => v.swap(4, 5) }
            let a: Vec<usize> = v.iter().map(|x| pb.load(vs(*x))).collect();
            pb.call("frustum", form, &a);
            pb.fsafe = true;
        }
        3 => {
            let asp = *rng.pick(&[q(1, 2), q(1, 1), q(16, 9), q(4, 3)]);
            let an = pb.load(ang_val_(fovy, rng));
            let a = [an, pb.load(vs(asp)), pb.load(vs(n)), pb.load(vs(f))];
            pb.call("perspective", form, &a);
            pb.call("to_perspective", "m", &a);
        }
        4 => {
            // perspective rejection
            let asp = q(4, 3);
            let (mut fv, mut aa, mut nn, mut ff) = (sym(0, 2, 0), asp, n, f);
            match rng.below(6) { 0 => fv = sym(0, 0, 0), 1 => fv = sym(2, 0, 0), 2 => aa = q(0, 1), 3 => nn = q(0, 1), 4 => ff = -f, _ => ff = nn }
            if rng.chance(1, 6) { fv = sym(-1, 0, 0); }
            if rng.chance(1, 6) { fv = sym(3, 0, 0); }
            let an = pb.load(ang_val_(fv, rng));
            let a = [an, pb.load(vs(aa)), pb.load(vs(nn)), pb.load(vs(ff))];
            pb.call("perspective", form, &a);
        }
        5 => {
            let asp = *rng.pick(&[q(1, 2), q(1, 1), q(16, 9), q(-2, 1)]);
            let h = *rng.pick(&[q(1, 2), q(1, 1), q(3, 1)]);
            let fv = *rng.pick(&[sym(0, 2, 0), sym(0, 0, 0), sym(2, -2, 0), sym(0, -2, 0), sym(-2, 2, 0)]);
            let an = pb.load(ang_val_(fv, rng));
            let a = [an, pb.load(vs(asp)), pb.load(vs(h)), pb.load(vs(n)), pb.load(vs(f))];
            pb.call("planar", form, &a);
        }
        _ => {
            // planar rejection: exactly one precondition violated
            let (mut fv, mut aa, mut hh, mut nn, ff) = (sym(0, 2, 0), q(4, 3), q(2, 1), n, f);
            match rng.below(6) { 0 => fv = sym(2, 0, 0), 1 => fv = sym(-2, 0, 0), 2 => hh = q(-1, 1), 3 => aa = q(0, 1), 4 => nn = ff,
                // focal point between the planes: fovy < 0 puts it in front of the eye at -(h/2)cot(|fovy|/2)
                _ => { fv = sym(0, -2, 0); hh = (n + f) * q(1, 1); /* tan(t1) = 4/3: focal = -(h/2)*(3/4)... chosen below */ } }
            let an = pb.load(ang_val_(fv, rng));
            let a = [an, pb.load(vs(aa)), pb.load(vs(hh)), pb.load(vs(nn)), pb.load(vs(ff))];
            pb.call("planar", form, &a);
        }
    }
}

// ------------------------------------------------------------------ C11
fn gen_c11(p: &Pools, rng: &mut Rng, pb: &mut PB) {
    if rng.chance(1, 6) {
        // close to unit length (pipeline C)
        let x = match rng.below(4) {
            0 => Val::V2(uv2(p, rng)), 1 => Val::V3(uv3(p, rng)),
            2 => { let u = uq(p, rng); Val::V4(Vector4::new(u.s, u.v.x, u.v.y, u.v.z)) }
            _ => Val::Q(uq(p, rng)),
        };
        let a = [pb.load(x), pb.load(Val::I(rng.range(0, 5))), pb.load(Val::B(rng.chance(1, 2)))];
        pb.call("norm_proj", "m", &a);
        return;
    }
    match rng.below(6) {
        0 => {
            // exact: vectors of rational length
            let k = small_nz(rng);
            let v = match rng.below(4) {
                0 => Val::V2(uv2(p, rng) * k), 1 => Val::V3(uv3(p, rng) * k),
                2 => { let u = uq(p, rng); Val::V4(Vector4::new(u.s, u.v.x, u.v.y, u.v.z) * k) }
                _ => Val::Q(uq(p, rng) * k),
            };
            let r = pb.load(v);
            pb.call("magnitude", "m", &[r]);
            pb.call("normalize", "m", &[r]);
            let m = pb.load(vs(small_nz(rng)));
            pb.call("normalize_to", "m", &[r, m]);
            pb.call("mag2", "m", &[r]);
        }
        1 => {
            // general position: square roots
            let v = match rng.below(5) {
                0 => Val::V1(Vector1::new(small_nz(rng))), 1 => Val::V2(rv2(rng)), 2 => Val::V3(rv3(rng)),
                3 => Val::V4(rv3(rng).extend(small(rng))), _ => Val::Q(Quaternion::from_sv(small(rng), rv3(rng))),
            };
            if crate::driver::GenSc::mag(&v) == 0 { return; }
            if !v.enc().contains("[-") && !v.enc().contains("[1,") && !v.enc().contains("[2,") && !v.enc().contains("[3,") && !v.enc().contains("[4,") && !v.enc().contains("[5,") && !v.enc().contains("[6,") { return; }
            let r = pb.load(v);
            pb.call("magnitude", "m", &[r]);
            pb.call("normalize", "m", &[r]);
            let m = pb.load(vs(small_nz(rng)));
            pb.call("normalize_to", "m", &[r, m]);
        }
        2 => {
            let (a, b) = match rng.below(4) {
                0 => (Val::V2(rv2(rng)), Val::V2(rv2(rng))), 1 => (Val::V3(rv3(rng)), Val::V3(rv3(rng))),
                2 => (Val::P3(Point3::from_vec(rv3(rng))), Val::P3(Point3::from_vec(rv3(rng)))),
                _ => (Val::P2(Point2::from_vec(rv2(rng))), Val::P2(Point2::from_vec(rv2(rng)))),
            };
            let (ra, rb) = (pb.load(a), pb.load(b));
            pb.call("distance", "m", &[ra, rb]);
            pb.call("distance", "m", &[rb, ra]);
            pb.call("distance2", "m", &[ra, rb]);
        }
        3 => {
            // angle between u and v = a table angle by construction: v = (e1 cos g + e2 sin g) * s in a rational frame
            let g = sym(rng.range(0, 1), rng.range(-1, 1), 0);
            let (c, s) = crate::ang::sym_cos_sin(g).unwrap();
            if s < Q::int(0) { return; }
            let (e1, e2, _e3) = frame(p, rng);
            let u = e1 * small_pos(rng);
            let v = (e1 * c + e2 * s) * small_pos(rng);
            let (ru, rv) = (pb.load(Val::V3(u)), pb.load(Val::V3(v)));
            pb.call("angle", "m", &[ru, rv]);
            pb.call("angle", "m", &[rv, ru]);
        }
        4 => {
            // 2-D signed angle
            let g = sym(rng.range(-1, 1), rng.range(-2, 2), 0);
            let (c, s) = crate::ang::sym_cos_sin(g).unwrap();
            let u = rv2(rng);
            if u.x.n == 0 && u.y.n == 0 { return; }
            let v = Vector2::new(u.x * c - u.y * s, u.x * s + u.y * c) * small_pos(rng);
            let (ru, rv) = (pb.load(Val::V2(u)), pb.load(Val::V2(v)));
            pb.call("angle", "m", &[ru, rv]);
            pb.call("angle", "m", &[rv, ru]);
        }
        _ => {
            // 4-D and quaternion angle through acos
            let g = sym(rng.range(0, 1), rng.range(-1, 1), 0);
            let (c, s) = crate::ang::sym_cos_sin(g).unwrap();
            if s < Q::int(0) { return; }
            // acos is infinitely ill-conditioned at 0 and 180 degrees: exactly (anti)parallel inputs are decided in exact arithmetic only
            if s.n == 0 { pb.fsafe = false; }
            let a = uq(p, rng);
            // an orthogonal unit quaternion: a * i
            let b = a * Quaternion::new(q(0, 1), q(1, 1), q(0, 1), q(0, 1));
            let w = a * c + b * s;
            if rng.chance(1, 2) {
                let (ra, rw) = (pb.load(Val::Q(a * small_pos(rng))), pb.load(Val::Q(w * small_pos(rng))));
                pb.call("angle", "m", &[ra, rw]);
            } else {
                let v4 = |x: Quaternion<Q>| Vector4::new(x.s, x.v.x, x.v.y, x.v.z);
                let (ra, rw) = (pb.load(Val::V4(v4(a) * small_pos(rng))), pb.load(Val::V4(v4(w) * small_pos(rng))));
                pb.call("angle", "m", &[ra, rw]);
                pb.call("project_on", "m", &[ra, rw]);
            }
        }
    }
}

// ------------------------------------------------------------------ C13
fn gen_c13(_p: &Pools, rng: &mut Rng, pb: &mut PB) {
    if rng.chance(1, 8) {
        // many turns away from zero (pipeline C): x = +-(m + 1/3) radians
        let m = *rng.pick(&[7i128, 100, 5000, 100_000, 1_000_000, 3_000_000]);
        let x = q(if rng.chance(1, 2) { 3 * m + 1 } else { -(3 * m + 1) }, 3);
        let a = [pb.load(vs(x))];
        pb.call("trig_big_proj", "m", &a);
        return;
    }
    let unit = *rng.pick(&["Rad", "Deg"]);
    if rng.chance(1, 4) {
        // pipeline C: rounding clauses on native values (tiny negatives, huge magnitudes, ordinary values)
        let tt = pb.load(t(unit));
        match rng.below(3) {
            0 => { let x = *rng.pick(&[q(1, 3), q(-7, 3), q(100, 7), q(123456, 1), q(-1, 1000), q(355, 113), q(1, 1), q(90, 1), q(-36000, 7), q(1, 999)]);
                   let rx = pb.load(vs(x)); pb.call("unit_roundtrip", "m", &[tt, rx]); }
            1 => { let x = *rng.pick(&[q(-1, 1000000), q(1, 1000000), q(1000001, 1), q(-1000001, 3), q(0, 1), q(360, 1), q(-360, 1), q(180, 1), q(-180, 1), q(710, 113),
                                       q(-355, 113), q(720, 1), q(12345, 7), q(-99999, 1), q(1, 3), q(540, 1)]);
                   let rx = pb.load(vs(x)); pb.call("normalize_native", "m", &[tt, rx]); }
            _ => { let k = pb.load(Val::I(*rng.pick(&[2i64, 3, 4, 6]))); pb.call("turn_div_exact", "m", &[tt, k]); pb.call("full_turn_value", "m", &[tt]); }
        }
        return;
    }
    let mk = |s: Sym| if unit == "Rad" { rad_val(s) } else { deg_val(s) };
    // multiples of 1/8 turn in [-3, 3] turns (quarter-turn part with denominator 2), optionally a table offset
    let eighth = |rng: &mut Rng| Sym { an: rng.range(-24, 24), ad: 2, k1: 0, k2: 0 };
    let norm = |s: Sym| { let g = crate::q::gcd(s.an as i128, s.ad as i128).max(1) as i64; Sym { an: s.an / g, ad: s.ad / g, k1: s.k1, k2: s.k2 } };
    match rng.below(8) {
        0 => {
            let a = pb.load(mk(norm(eighth(rng))));
            pb.call("normalize_ang", "m", &[a]);
            pb.call("normalize_signed", "m", &[a]);
            pb.call("opposite", "m", &[a]);
        }
        1 => {
            let a = pb.load(mk(norm(eighth(rng))));
            let b = pb.load(mk(norm(eighth(rng))));
            pb.call("bisect", "m", &[a, b]);
            pb.call("bisect", "m", &[b, a]);
        }
        2 => {
            // with a table offset: decided through the rational enclosure of theta1
            let s = Sym { an: rng.range(-10, 10), ad: 1, k1: rng.range(-2, 2), k2: 0 };
            let a = pb.load(mk(s));
            pb.call("normalize_ang", "m", &[a]);
            pb.call("normalize_signed", "m", &[a]);
            pb.call("opposite", "m", &[a]);
            // same parity of the table coefficient, so that the bisector is a table angle again
            let b = pb.load(mk(Sym { an: rng.range(-2, 2) * 2 + s.an % 2, ad: 1, k1: s.k1 + 2 * rng.range(-1, 1), k2: 0 }));
            pb.call("bisect", "m", &[a, b]);
        }
        3 => {
            let tt = pb.load(t(unit));
            let ft = pb.call("full_turn", "m", &[tt]);
            let k = *rng.pick(&[2i64, 3, 4, 6]);
            let kk = pb.load(Val::I(k));
            let d = pb.call("turn_div", "m", &[tt, kk]);
            let ks = pb.load(vs(Q::int(k as i128)));
            pb.call("mul_s", *rng.pick(&["vv", "rv", "as"]), &[d, ks]);
            pb.call("div_aa", *rng.pick(&["vv", "rv", "vr", "rr"]), &[ft, d]);
        }
        4 => {
            // trigonometric wiring at table angles
            let s = sym(rng.range(-4, 4), rng.range(-2, 2), if rng.chance(1, 6) { *rng.pick(&[-1i64, 1]) } else { 0 });
            let a = pb.load(mk(s));
            pb.call("sin", "m", &[a]);
            pb.call("cos", "m", &[a]);
            pb.call("sin_cos", "m", &[a]);
            let (c, sn) = crate::ang::sym_cos_sin(s).unwrap();
            if c.n != 0 { pb.call("tan", "m", &[a]); pb.call("sec", "m", &[a]); }
            if sn.n != 0 { pb.call("csc", "m", &[a]); if c.n != 0 { pb.call("cot", "m", &[a]); } }
        }
        5 => {
            // principal inverses in the caller's unit
            let s = sym(rng.range(-2, 2), rng.range(-2, 2), 0);
            let (c, sn) = crate::ang::sym_cos_sin(s).unwrap();
            let tt = pb.load(t(unit));
            let (rc, rs) = (pb.load(vs(c)), pb.load(vs(sn)));
            pb.call("asin", "m", &[tt, rs]);
            pb.call("acos", "m", &[tt, rc]);
            let k = small_pos(rng);
            let (ry, rx) = (pb.load(vs(sn * k)), pb.load(vs(c * k)));
            pb.call("atan2", "m", &[tt, ry, rx]);
            if c.n != 0 { let tn = pb.load(vs(sn / c)); pb.call("atan", "m", &[tt, tn]); }
        }
        6 => {
            // arithmetic acts on the underlying number
            let a = pb.load(mk(norm(eighth(rng))));
            let b = pb.load(mk(Sym { an: rng.range(-6, 6), ad: 1, k1: rng.range(-2, 2), k2: 0 }));
            let s1 = pb.call("add", *rng.pick(&["vv", "rv", "vr", "rr", "as"]), &[a, b]);
            pb.call("sub", *rng.pick(&["vv", "rv", "vr", "rr", "as"]), &[s1, a]);
            pb.call("neg", *rng.pick(&["v", "r"]), &[b]);
            let k = pb.load(vs(Q::int(rng.range(-3, 3) as i128)));
            pb.call("mul_s", *rng.pick(&["vv", "rv", "as"]), &[b, k]);
            let k2 = pb.load(vs(Q::int(*rng.pick(&[2i64, -2, 4]) as i128)));
            pb.call("div_s", *rng.pick(&["vv", "rv", "as"]), &[a, k2]);
            let tt = pb.load(t(unit));
            pb.call("iter_sum", *rng.pick(&["v", "r"]), &[tt, a, b, s1]);
        }
        _ => {
            // unit conversion and remainder
            let a = pb.load(mk(Sym { an: rng.range(-9, 9), ad: *rng.pick(&[1i64, 2, 3]), k1: 0, k2: 0 }));
            let a = if let Val::ARad(_) = pb.reg(a) { a } else { a };
            let conv = if unit == "Rad" { "to_deg" } else { "to_rad" };
            let back = if unit == "Rad" { "to_rad" } else { "to_deg" };
            let c = pb.call(conv, "m", &[a]);
            pb.call(back, "m", &[c]);
            let m = pb.load(mk(sym(*rng.pick(&[1i64, 2, 3, 4]), 0, 0)));
            pb.call("rem", *rng.pick(&["vv", "rv", "vr", "rr", "as"]), &[a, m]);
            pb.fsafe = false; // % on a non-representable operand is discontinuous in floating point
        }
    }
}

// ------------------------------------------------------------------ C14
/// a rational unit quaternion for a small rotation: w = (n^2 - 1)/(n^2 + 1), one axis component 2n/(n^2 + 1)
fn small_rot(rng: &mut Rng) -> Quaternion<Q> {
    let n = *rng.pick(&[40i128, 50, 64, 70, 80, 100, 30, 25]); // n >= 64: dot above 0.9995; below: under the hand-over threshold
    let (w, s) = (q(n * n - 1, n * n + 1), q(2 * n, n * n + 1));
    let s = if rng.chance(1, 2) { s } else { -s };
    match rng.below(3) { 0 => Quaternion::new(w, s, q(0, 1), q(0, 1)), 1 => Quaternion::new(w, q(0, 1), s, q(0, 1)), _ => Quaternion::new(w, q(0, 1), q(0, 1), s) }
}
fn gen_c14(p: &Pools, rng: &mut Rng, pb: &mut PB) {
    if rng.chance(2, 5) {
        // pipeline C: arbitrary t and arbitrary arcs, judged through integer projections of the native result
        let a = { let e = p.u4[rng.below(p.u4.len())]; if e[4] > 5 { return; } Quaternion::new(q(e[0], e[4]), q(e[1], e[4]), q(e[2], e[4]), q(e[3], e[4])) };
        let mut b = if rng.chance(1, 2) { a * small_rot(rng) } else { let e = p.u4[rng.below(p.u4.len())]; if e[4] > 5 { return; } Quaternion::new(q(e[0], e[4]), q(e[1], e[4]), q(e[2], e[4]), q(e[3], e[4])) };
        if rng.chance(1, 2) { b = -b; }
        let tq = *rng.pick(&[q(0, 1), q(1, 1), q(1, 2), q(1, 3), q(1, 4), q(2, 3), q(3, 4), q(1, 5), q(7, 8), q(1, 10), q(9, 10)]);
        let (ra, rb, rt) = (pb.load(Val::Q(a)), pb.load(Val::Q(b)), pb.load(vs(tq)));
        pb.call("slerp_proj", "m", &[ra, rb, rt]);
        pb.call("nlerp_proj", "m", &[ra, rb, rt]);
        // orthogonal-up-to-rounding pairs: the sign of a tiny dot product decides the side
        let a5 = [pb.load(Val::I(rng.range(0, 3))), pb.load(Val::I(*rng.pick(&[1i64, -1]))), pb.load(Val::I(rng.range(0, 2))), pb.load(Val::B(rng.chance(1, 2))),
                  pb.load(vs(*rng.pick(&[q(1, 2), q(1, 1), q(1, 3), q(3, 4), q(0, 1)])))];
        pb.call("slerp_axis_proj", "m", &a5);
        return;
    }
    match rng.below(4) {
        0 => {
            // slerp along a great circle: b = +-(a cos g + c sin g) with g an acute table angle and t*g a table angle
            let a = uq(p, rng);
            let c = a * Quaternion::new(q(0, 1), q(0, 1), q(1, 1), q(0, 1));
            let (g, ts): (Sym, &[(i128, i128)]) = *rng.pick(&[
                (sym(0, 1, 0), &[(0, 1), (1, 1)][..]), (sym(-1, 2, 0), &[(0, 1), (1, 1)][..]), (sym(1, -1, 0), &[(0, 1), (1, 1)][..]),
                (sym(2, -2, 0), &[(0, 1), (1, 2), (1, 1)][..]), (sym(-2, 4, 0), &[(0, 1), (1, 2), (1, 1)][..]),
                (sym(-1, 3, 0), &[(0, 1), (1, 1)][..]), (sym(1, 0, 0), &[(0, 1), (1, 1)][..]),
            ]);
            let (cp, sp) = crate::ang::sym_cos_sin(g).unwrap();
            let mut b = a * cp + c * sp;
            if rng.chance(1, 2) { b = -b; } // same rotation, opposite sign of the dot product
            let tt = *rng.pick(ts);
            let tq = q(tt.0, tt.1);
            let (ra, rb, rt) = (pb.load(Val::Q(a)), pb.load(Val::Q(b)), pb.load(vs(tq)));
            pb.call("slerp", "m", &[ra, rb, rt]);
            pb.call("dot", "m", &[ra, rb]);
        }
        1 => {
            // nlerp of generic unit quaternions: square roots
            let (a, b) = (uq(p, rng), uq(p, rng));
            let tq = *rng.pick(&[q(0, 1), q(1, 1), q(1, 2), q(1, 3), q(1, 4), q(2, 3)]);
            let (ra, rb, rt) = (pb.load(Val::Q(a)), pb.load(Val::Q(b)), pb.load(vs(tq)));
            pb.call("nlerp", "m", &[ra, rb, rt]);
            if tq.n == 0 || tq == q(1, 1) { pb.call("slerp", "m", &[ra, rb, rt]); }
        }
        2 => {
            let tq = *rng.pick(&[q(0, 1), q(1, 1), q(1, 2), q(1, 3), q(-1, 1), q(2, 1)]);
            let (a, b) = match rng.below(5) {
                0 => (Val::V1(Vector1::new(small(rng))), Val::V1(Vector1::new(small(rng)))),
                1 => (Val::V2(rv2(rng)), Val::V2(rv2(rng))), 2 => (Val::V3(rv3(rng)), Val::V3(rv3(rng))),
                3 => (Val::V4(rv3(rng).extend(small(rng))), Val::V4(rv3(rng).extend(small(rng)))),
                _ => (Val::Q(Quaternion::from_sv(small(rng), rv3(rng))), Val::Q(Quaternion::from_sv(small(rng), rv3(rng)))),
            };
            let (ra, rb, rt) = (pb.load(a), pb.load(b), pb.load(vs(tq)));
            pb.call("lerp", "m", &[ra, rb, rt]);
        }
        _ => {
            // nearly-equal and equal endpoints hand over to nlerp
            let a = uq(p, rng);
            let tq = *rng.pick(&[q(0, 1), q(1, 1), q(1, 2)]);
            let (ra, rb, rt) = (pb.load(Val::Q(a)), pb.load(Val::Q(if rng.chance(1, 2) { a } else { -a })), pb.load(vs(tq)));
            pb.call("slerp", "m", &[ra, rb, rt]);
            pb.call("nlerp", "m", &[ra, rb, rt]);
        }
    }
}

// ------------------------------------------------------------------ C15
/// unit 3-vectors with denominators <= 9: the rotation matrix of an arc has denominators of the order of the product of the squares
fn uv3s(p: &Pools, rng: &mut Rng) -> Vector3<Q> { loop { let v = uv3(p, rng); if v.x.d <= 9 && v.y.d <= 9 && v.z.d <= 9 { return v; } } }
fn gen_c15(p: &Pools, rng: &mut Rng, pb: &mut PB) {
    if rng.chance(1, 4) {
        // close to parallel / antiparallel (pipeline C): the rotation must still take a onto b
        let kind = *rng.pick(&["quat", "basis3", "arc", "basis2", "quat", "arc"]);
        if kind == "basis2" {
            let a5 = [pb.load(t(kind)), pb.load(Val::V2(uv2(p, rng))), pb.load(Val::I(rng.range(0, 3))), pb.load(Val::B(rng.chance(1, 2))), pb.load(Val::B(rng.chance(1, 2)))];
            pb.call("arc_proj", "m", &a5);
        } else {
            let (e1, _e2, e3) = frame(p, rng);
            let anti = rng.chance(1, 2);
            // antiparallel: the scalar part of the quaternion is d^2/2, so keep d >= 1e-5 where rounding stays far below the bound
            let dc = if kind == "arc" { rng.range(0, 2) } else if anti { rng.range(0, 2) } else { rng.range(0, 3) };
            let sc = |rng: &mut Rng| if kind == "arc" { *rng.pick(&[q(1, 1), q(1, 1000), q(1000, 1), q(7, 2), q(1, 40), q(250, 1)]) } else { q(1, 1) };
            let a7 = [pb.load(t(kind)), pb.load(Val::V3(e1)), pb.load(Val::V3(e3)), pb.load(Val::I(dc)), pb.load(Val::B(anti)), pb.load(vs(sc(rng))), pb.load(vs(sc(rng)))];
            pb.call("arc_proj", "m", &a7);
        }
        return;
    }
    match rng.below(4) {
        0 | 1 => {
            let a = uv3s(p, rng);
            let b = match rng.below(6) { 0 => a, 1 => -a, _ => uv3s(p, rng) };
            let ty = *rng.pick(&["Quaternion", "Basis3"]);
            let (tt, ra, rb) = (pb.load(t(ty)), pb.load(Val::V3(a)), pb.load(Val::V3(b)));
            let r = pb.call("between_vectors", "m", &[tt, ra, rb]);
            let _ = r;
        }
        2 => {
            let a = uv2(p, rng);
            let b = match rng.below(6) { 0 => a, 1 => -a, _ => uv2(p, rng) };
            let (tt, ra, rb) = (pb.load(t("Basis2")), pb.load(Val::V2(a)), pb.load(Val::V2(b)));
            let r = pb.call("between_vectors", "m", &[tt, ra, rb]);
            pb.call("rotate_vector", "m", &[r, ra]);
        }
        _ => {
            let scale = |rng: &mut Rng| *rng.pick(&[q(1, 1), q(2, 1), q(1, 3), q(5, 2), q(1, 10), q(10, 1)]);
            let src = uv3s(p, rng) * scale(rng);
            let dst = match rng.below(6) { 0 => src * small_pos(rng), 1 => -src * small_pos(rng), _ => uv3s(p, rng) * scale(rng) };
            let opposite = src.cross(dst) == Vector3::new(q(0, 1), q(0, 1), q(0, 1)) && src.dot(dst) < q(0, 1);
            let fb = if opposite && rng.chance(1, 2) {
                // a unit axis perpendicular to src
                let (e1, e2, e3) = frame(p, rng);
                let _ = (e1, e2, e3);
                let perp = src.cross(Vector3::new(q(1, 1), q(2, 1), q(-2, 1)));
                let m2 = perp.dot(perp);
                match (isqrt(m2.n), isqrt(m2.d)) { (Some(a), Some(b)) if a != 0 => Val::OSome(Box::new(Val::V3(perp * q(b, a)))), _ => Val::ONone }
            } else if !opposite && rng.chance(1, 3) { Val::OSome(Box::new(Val::V3(uv3s(p, rng)))) } else { Val::ONone };
            let (rs, rd, rf) = (pb.load(Val::V3(src)), pb.load(Val::V3(dst)), pb.load(fb));
            pb.call("from_arc", "m", &[rs, rd, rf]);
        }
    }
}

// ------------------------------------------------------------------ C16
fn distinct(rng: &mut Rng, n: usize) -> Vec<Q> {
    let mut pool: Vec<i128> = (1..=40).collect();
    let mut out = Vec::new();
    for _ in 0..n { let i = rng.below(pool.len()); out.push(Q::int(pool.remove(i))); }
    out
}
fn typed_from(ty: &str, c: &[Q]) -> V {
    match ty {
        "Vector1" => Val::V1(Vector1::new(c[0])), "Vector2" => Val::V2(Vector2::new(c[0], c[1])), "Vector3" => Val::V3(Vector3::new(c[0], c[1], c[2])),
        "Vector4" => Val::V4(Vector4::new(c[0], c[1], c[2], c[3])),
        "Point1" => Val::P1(Point1::new(c[0])), "Point2" => Val::P2(Point2::new(c[0], c[1])), "Point3" => Val::P3(Point3::new(c[0], c[1], c[2])),
        "Matrix2" => Val::M2(Matrix2::new(c[0], c[1], c[2], c[3])),
        "Matrix3" => Val::M3(Matrix3::new(c[0], c[1], c[2], c[3], c[4], c[5], c[6], c[7], c[8])),
        "Matrix4" => Val::M4(Matrix4::new(c[0], c[1], c[2], c[3], c[4], c[5], c[6], c[7], c[8], c[9], c[10], c[11], c[12], c[13], c[14], c[15])),
        _ => Val::Q(Quaternion::new(c[3], c[0], c[1], c[2])),
    }
}
fn ncomp(ty: &str) -> usize { match ty { "Vector1" | "Point1" => 1, "Vector2" | "Point2" => 2, "Vector3" | "Point3" => 3, "Vector4" | "Matrix2" | "Quaternion" => 4, "Matrix3" => 9, _ => 16 } }
const ALLTY: &[&str] = &["Vector1", "Vector2", "Vector3", "Vector4", "Point1", "Point2", "Point3", "Matrix2", "Matrix3", "Matrix4", "Quaternion"];
fn read_views(ty: &str) -> Vec<&'static str> {
    let mut v = vec!["fields", "index", "array_into", "array_ref"];
    if ty.starts_with("Matrix") { v.extend_from_slice(&["flat_ref", "ptr", "conv", "mint"]); }
    else {
        v.extend_from_slice(&["tuple_into", "tuple_ref", "range_full", "range"]);
        if ty != "Vector1" && ty != "Point1" { v.push("mint"); v.push("range_to_from"); }
        if ty != "Quaternion" { v.push("ptr"); if ty != "Vector1" && ty != "Point1" { v.push("conv"); } }
    }
    v
}
fn from_views(ty: &str) -> Vec<&'static str> {
    if ty.starts_with("Matrix") { vec!["array", "array_ref", "array_mut", "flat_ref", "flat_mut", "mint"] }
    else { let mut v = vec!["array", "array_ref", "array_mut", "tuple", "tuple_ref", "tuple_mut"]; if ty != "Quaternion" { v.push("new"); }
           if ty != "Vector1" && ty != "Point1" { v.push("mint"); } v }
}
fn write_views(ty: &str) -> Vec<&'static str> {
    if ty.starts_with("Matrix") { vec!["index", "array_mut", "flat_mut", "col_mut", "from_flat_mut"] }
    else if ty == "Quaternion" { vec!["index", "array_mut", "tuple_mut", "range_mut", "fields"] }
    else { vec!["index", "array_mut", "tuple_mut", "range_mut", "ptr_mut", "fields", "from_array_mut"] }
}
fn gen_c16(_p: &Pools, rng: &mut Rng, pb: &mut PB) {
    if rng.chance(1, 10) {
        // growth: Matrix::as_ptr / as_mut_ptr, mint Euler angles, Bounded
        match rng.below(3) {
            0 => { let ty = *rng.pick(&["Matrix2", "Matrix3", "Matrix4"]); let n = ncomp(ty); let x = pb.load(typed_from(ty, &distinct(rng, n)));
                   pb.float_only = true;
                   pb.call("mat_ptr_read", "m", &[x]);
                   let (i, s) = (pb.load(Val::I(rng.range(0, n as i64))), pb.load(vs(Q::int(91))));
                   let w = pb.call("mat_ptr_write", "m", &[x, i, s]); pb.call("view_read", "fields", &[w]); }
            1 => { let tt = pb.load(t(*rng.pick(&["Vector3", "Point2", "Deg"]))); pb.call("bounded", "m", &[tt]); }
            _ => { let tt = pb.load(t(*rng.pick(&["Vector1", "Vector2", "Vector3", "Vector4", "Point1", "Point2", "Point3", "Rad", "Deg"]))); pb.call("bounded", "m", &[tt]); }
        }
        return;
    }
    let ty = *rng.pick(ALLTY);
    let n = ncomp(ty);
    let c = distinct(rng, n);
    match rng.below(7) {
        0 => {
            let x = pb.load(typed_from(ty, &c));
            let views = read_views(ty);
            for _ in 0..3 { let v = *rng.pick(&views); pb.call("view_read", v, &[x]); }
        }
        1 => {
            if n > 5 { // too many scalars for the register file: a 2x2 matrix instead
                let c = distinct(rng, 4);
                let regs: Vec<usize> = c.iter().map(|s| pb.load(vs(*s))).collect();
                let (t1, t2) = (pb.load(t("Matrix2")), pb.load(t(*rng.pick(&from_views("Matrix2")))));
                let mut a = vec![t1, t2]; a.extend(regs);
                let x = pb.call("view_from", "m", &a);
                pb.call_reuse("view_read", *rng.pick(&read_views("Matrix2")), &[x], a[2]);
                return;
            }
            let regs: Vec<usize> = c.iter().map(|s| pb.load(vs(*s))).collect();
            let (t1, t2) = (pb.load(t(ty)), pb.load(t(*rng.pick(&from_views(ty)))));
            let mut a = vec![t1, t2]; a.extend(regs.iter().cloned());
            let x = pb.call("view_from", "m", &a);
            pb.call_reuse("view_read", *rng.pick(&read_views(ty)), &[x], regs[0]);
            if ty == "Quaternion" { pb.call_reuse("quat_new", "m", &[regs[3], regs[1], regs[2], regs[3]], t2); }
        }
        2 => {
            // writes through mutable views are visible through all others
            let mut x = pb.load(typed_from(ty, &c));
            let wv = write_views(ty);
            for _ in 0..(1 + rng.below(3)) {
                let i = if rng.chance(1, 10) { (n + rng.below(3)) as i64 } else { rng.below(n) as i64 };
                let (view, ii, s) = (pb.load(t(*rng.pick(&wv))), pb.load(Val::I(i)), pb.load(vs(Q::int(50 + rng.range(0, 40) as i128))));
                x = pb.call_reuse("view_write", "m", &[x, view, ii, s], ii);
                if i as usize >= n { return; }
            }
            let rv = read_views(ty);
            pb.call("view_read", *rng.pick(&rv), &[x]);
        }
        3 => {
            if ty.starts_with("Matrix") {
                let x = pb.load(typed_from(ty, &c));
                let m = if ty == "Matrix2" { 2 } else if ty == "Matrix3" { 3 } else { 4 };
                let i = pb.load(Val::I(*rng.pick(&[m as i64, m as i64 + 1, m as i64 + 2, -1, 0, m as i64 - 1])));
                pb.call("col", "m", &[x, i]);
                return;
            }
            let x = pb.load(typed_from(ty, &c));
            let i = pb.load(Val::I(*rng.pick(&[n as i64, n as i64 + 1, n as i64 + 2, -1, 0, n as i64 - 1])));
            pb.call("index", "m", &[x, i]);
            let kind = pb.load(t(*rng.pick(&["range", "to", "from"])));
            let (lo, hi) = (pb.load(Val::I(rng.range(0, n as i64 + 1))), pb.load(Val::I(rng.range(0, n as i64 + 2))));
            pb.call("index_range", "m", &[x, kind, lo, hi]);
        }
        4 => {
            if ty.starts_with("Matrix") || ty == "Quaternion" { return; }
            let x = pb.load(typed_from(ty, &c));
            let (i, j) = (pb.load(Val::I(rng.below(n) as i64)), pb.load(Val::I(if rng.chance(1, 8) { n as i64 } else { rng.below(n) as i64 })));
            pb.call("swap_elements", "m", &[x, i, j]);
            let k = pb.load(vs(Q::int(rng.range(1, 9) as i128)));
            pb.call("map", "m", &[x, k]);
            let y = pb.load(typed_from(ty, &distinct(rng, n)));
            pb.call("zip", "m", &[x, y]);
        }
        5 => {
            // swizzles: a random word over the type's letters
            if ty.starts_with("Matrix") || ty == "Quaternion" { return; }
            let x = pb.load(typed_from(ty, &c));
            let maxlen = if ty.starts_with("Point") { 3 } else { 4 };
            let len = 1 + rng.below(maxlen);
            let ix: Vec<usize> = (0..len).map(|_| 1 + rng.below(n)).collect();
            let word: String = ix.iter().map(|i| ["x", "y", "z", "w"][i - 1]).collect();
            let mut a = vec![x, pb.load(t(&word))];
            for i in &ix { a.push(pb.load(Val::I(*i as i64))); }
            pb.call("swizzle", "m", &a);
        }
        _ => {
            if !(ty == "Vector2" || ty == "Vector3" || ty == "Vector4") { return; }
            let x = pb.load(typed_from(ty, &c));
            if ty != "Vector4" { let s = pb.load(vs(Q::int(77))); pb.call("extend", "m", &[x, s]); }
            if ty != "Vector2" { pb.call("truncate", "m", &[x]); }
            if ty == "Vector4" { let i = pb.load(Val::I(*rng.pick(&[0i64, 1, 2, 3, 4, -1]))); pb.call("truncate_n", "m", &[x, i]); }
        }
    }
}

// ------------------------------------------------------------------ C18
fn perturb(c: &[Q], i: usize, d: Q) -> Vec<Q> { let mut v = c.to_vec(); v[i] = v[i] + d; v }
fn compound_from(p: &Pools, rng: &mut Rng, kind: &str, c: &[Q]) -> V {
    match kind {
        "Basis2" => Val::B2(basis2_from(Matrix2::new(c[0], c[1], c[2], c[3]))),
        "Basis3" => Val::B3(basis3_from(Matrix3::new(c[0], c[1], c[2], c[3], c[4], c[5], c[6], c[7], c[8]))),
        "DecQ" => Val::DQ(Decomposed { scale: c[0], rot: Quaternion::new(c[4], c[1], c[2], c[3]), disp: Vector3::new(c[5], c[6], c[7]) }),
        "Dec3" => Val::D3(Decomposed { scale: c[0], rot: basis3_from(Matrix3::new(c[1], c[2], c[3], c[4], c[5], c[6], c[7], c[8], c[9])), disp: Vector3::new(c[10], c[11], c[12]) }),
        "Dec2" => Val::D2(Decomposed { scale: c[0], rot: basis2_from(Matrix2::new(c[1], c[2], c[3], c[4])), disp: Vector2::new(c[5], c[6]) }),
        _ => { let _ = (p, rng); typed_from(kind, c) }
    }
}
fn ncomp2(kind: &str) -> usize { match kind { "Basis2" => 4, "Basis3" => 9, "DecQ" => 8, "Dec3" => 13, "Dec2" => 7, _ => ncomp(kind) } }
fn gen_c18(p: &Pools, rng: &mut Rng, pb: &mut PB) {
    match rng.below(6) {
        0 | 1 | 2 => {
            // pairs differing in exactly one component by an amount just inside, on, or just outside the tolerance
            let kinds = ["Vector1", "Vector2", "Vector3", "Vector4", "Point1", "Point2", "Point3", "Matrix2", "Matrix3", "Matrix4", "Quaternion",
                         "Basis2", "Basis3", "DecQ", "Dec3", "Dec2"];
            let kind = *rng.pick(&kinds);
            let n = ncomp2(kind);
            let c: Vec<Q> = (0..n).map(|_| q(rng.range(-8, 8) as i128, *rng.pick(&[1, 2, 4]))).collect();
            let i = rng.below(n);
            let d = *rng.pick(&[q(1, 16), q(1, 4), q(1, 8), q(-1, 4), q(-1, 16), q(0, 1), q(3, 16)]);
            let (x, y) = (pb.load(compound_from(p, rng, kind, &c)), pb.load(compound_from(p, rng, kind, &perturb(&c, i, d))));
            let e = pb.load(vs(q(1, 8)));
            match rng.below(4) {
                0 => { pb.call("abs_diff_eq", "m", &[x, y, e]); pb.call("abs_diff_eq", "m", &[y, x, e]); }
                1 => { let r = pb.load(vs(*rng.pick(&[q(1, 64), q(1, 16), q(1, 2)]))); let e0 = pb.load(vs(q(1, 1024))); pb.call("relative_eq", "m", &[x, y, e0, r]); pb.call("relative_eq", "m", &[y, x, e0, r]); }
                2 => { let u = pb.load(Val::I(4)); pb.call("ulps_eq", "m", &[x, y, e, u]); pb.call("ulps_eq", "m", &[x, x, e, u]); }
                _ => { pb.call("eq", "m", &[x, y]); pb.call("eq", "m", &[x, x]); }
            }
        }
        3 => {
            // angles and Euler triples, built from raw numbers inside the call
            let unit = *rng.pick(&["Rad", "Deg", "ERad", "EDeg"]);
            let n = if unit.starts_with('E') { 3 } else { 1 };
            let c: Vec<Q> = (0..n).map(|_| q(rng.range(-8, 8) as i128, *rng.pick(&[1, 2, 4]))).collect();
            let i = rng.below(n);
            let d = *rng.pick(&[q(1, 16), q(1, 4), q(1, 8), q(-1, 4), q(0, 1)]);
            let c2 = perturb(&c, i, d);
            let mut a = vec![pb.load(t(unit))];
            for s in c.iter().chain(c2.iter()) { a.push(pb.load(vs(*s))); }
            a.push(pb.load(vs(q(1, 8))));
            match rng.below(3) {
                0 => { pb.call("abs_diff_eq", "raw", &a); }
                1 => { a.push(pb.load(vs(q(1, 16)))); pb.call("relative_eq", "raw", &a); }
                _ => { a.push(pb.load(Val::I(4))); pb.call("ulps_eq", "raw", &a); }
            }
            // Zero::is_zero of an angle: ulps-comparison of its number with 0 (zero, a residue below the tolerance, a proper angle)
            if n == 1 {
                let z = pb.load(vs(*rng.pick(&[q(0, 1), q(1, 1 << 30), q(-1, 1 << 30), q(1, 1024), q(-3, 1), c[0]])));
                pb.call("is_zero_approx", "raw", &[a[0], z]);
            }
        }
        4 => {
            // matrix predicates: exactly one perturbed element
            let m = 2 + rng.below(3);
            let ty = ["Matrix2", "Matrix3", "Matrix4"][m - 2];
            let which = rng.below(5);
            let mut e: Vec<Q> = Vec::new();
            let sym: Vec<Q> = (0..m * m).map(|_| small(rng)).collect();
            for cc in 0..m { for r in 0..m {
                e.push(match which {
                    0 => if cc == r { q(1, 1) } else { q(0, 1) },                       // identity
                    1 => if cc == r { small(rng) } else { q(0, 1) },                    // diagonal
                    2 => sym[cc.min(r) * m + cc.max(r)],                                // symmetric
                    3 => q(0, 1),                                                       // zero
                    _ => small(rng),
                });
            } }
            if rng.chance(3, 4) { let i = rng.below(m * m); e[i] = e[i] + *rng.pick(&[q(1, 1024), q(1, 4), q(-1, 8)]); }
            let x = pb.load(typed_from(ty, &e));
            pb.call("is_identity", "m", &[x]);
            pb.call("is_diagonal", "m", &[x]);
            pb.call("is_symmetric", "m", &[x]);
            pb.call("is_zero_approx", "m", &[x]);
            pb.call("is_invertible", "m", &[x]);
        }
        _ => {
            // is_finite with one non-finite component; is_zero; is_perpendicular
            let kinds = ["Vector2", "Vector3", "Vector4", "Point2", "Point3", "Matrix2", "Matrix3", "Matrix4", "Quaternion"];
            let kind = *rng.pick(&kinds);
            let n = ncomp(kind);
            let mut c: Vec<Q> = (0..n).map(|_| small(rng)).collect();
            if rng.chance(2, 3) { let i = rng.below(n); c[i] = *rng.pick(&[Q::new(1, 0), Q::new(-1, 0), Q::new(0, 0)]); }
            let x = pb.load(typed_from(kind, &c));
            pb.call("is_finite", "m", &[x]);
            if kind == "Quaternion" { let z = pb.load(typed_from(kind, &[q(0, 1), q(0, 1), if rng.chance(1, 2) { q(1, 8) } else { q(0, 1) }, q(0, 1)])); pb.call("is_zero_approx", "m", &[z]); }
            if kind.starts_with("Vector") {
                let u: Vec<Q> = (0..n).map(|_| small(rng)).collect();
                let (ru, rv) = (pb.load(typed_from(kind, &u)), pb.load(typed_from(kind, &(0..n).map(|_| small(rng)).collect::<Vec<Q>>())));
                pb.call("is_perpendicular", "m", &[ru, rv]);
                pb.call("is_zero", "m", &[ru]);
            }
        }
    }
}

// ------------------------------------------------------------------ C19
const SCALARS: &[&str] = &["i8", "i16", "i32", "i64", "isize", "u8", "u16", "u32", "u64", "usize", "f32", "f64"];
fn gen_c19(_p: &Pools, rng: &mut Rng, pb: &mut PB) {
    let ty = *rng.pick(&["Vector1", "Vector2", "Vector3", "Vector4", "Point1", "Point2", "Point3", "Matrix2", "Matrix3", "Matrix4", "Quaternion", "Vector3", "Vector4", "Point3"]);
    let src = *rng.pick(SCALARS);
    let dst = if ty == "Quaternion" { *rng.pick(&["f32", "f64"]) } else { *rng.pick(SCALARS) };
    let n = ncomp(ty);
    let safe = ["zero", "one", "two", "seven", "hundred"];
    let risky = ["max", "min", "neg1", "mid", "big", "p200", "p70000", "nan", "inf", "ninf", "half", "nhalf", "huge"];
    // mostly convertible components with failures at zero, one or two positions
    let mut toks: Vec<&str> = (0..n).map(|_| *rng.pick(&safe)).collect();
    for _ in 0..rng.below(3) { let i = rng.below(n); toks[i] = *rng.pick(&risky); }
    let mut a = vec![pb.load(t(ty)), pb.load(t(src)), pb.load(t(dst))];
    for tk in &toks { a.push(pb.load(t(tk))); }
    pb.call("cast", "m", &a);
}

// ------------------------------------------------------------------ C20
fn gen_c20(p: &Pools, rng: &mut Rng, pb: &mut PB) {
    let kinds = ["Vector1", "Vector2", "Vector3", "Vector4", "Point1", "Point2", "Point3", "Matrix2", "Matrix3", "Matrix4", "Quaternion",
                 "Basis2", "Basis3", "DecQ", "Dec3", "Dec2", "Rad", "Deg", "ERad", "EDeg", "Ortho", "Persp", "PFov", "Planar"];
    let kind = *rng.pick(&kinds);
    let mk = |rng: &mut Rng| -> (V, usize) {
        match kind {
            "Rad" => (rad_val(sym(1, 1, 0)), 1), "Deg" => (deg_val(sym(-1, 2, 0)), 1),
            "ERad" => (Val::ERad(Euler::new(Rad(<Q as crate::sc::Sc>::dec_ang(sym(1, 0, 0), crate::ang::Unit::Rad)), Rad(<Q as crate::sc::Sc>::dec_ang(sym(0, 1, 0), crate::ang::Unit::Rad)), Rad(<Q as crate::sc::Sc>::dec_ang(sym(2, -1, 0), crate::ang::Unit::Rad)))), 3),
            "EDeg" => (Val::EDeg(Euler::new(Deg(<Q as crate::sc::Sc>::dec_ang(sym(1, 0, 0), crate::ang::Unit::Deg)), Deg(<Q as crate::sc::Sc>::dec_ang(sym(0, 1, 0), crate::ang::Unit::Deg)), Deg(<Q as crate::sc::Sc>::dec_ang(sym(2, -1, 0), crate::ang::Unit::Deg)))), 3),
            "Ortho" | "Persp" => { let c = distinct(rng, 6); let o = (c[0], c[1], c[2], c[3], c[4], c[5]);
                (if kind == "Ortho" { Val::POrtho(Ortho { left: o.0, right: o.1, bottom: o.2, top: o.3, near: o.4, far: o.5 }) }
                 else { Val::PPersp(Perspective { left: o.0, right: o.1, bottom: o.2, top: o.3, near: o.4, far: o.5 }) }, 6) }
            "PFov" => { let c = distinct(rng, 3); (Val::PFov(PerspectiveFov { fovy: Rad(<Q as crate::sc::Sc>::dec_ang(sym(0, 1, 0), crate::ang::Unit::Rad)), aspect: c[0], near: c[1], far: c[2] }), 4) }
            "Planar" => { let c = distinct(rng, 4); (Val::Planar(PlanarFov { fovy: Rad(<Q as crate::sc::Sc>::dec_ang(sym(0, 1, 0), crate::ang::Unit::Rad)), aspect: c[0], height: c[1], near: c[2], far: c[3] }), 5) }
            _ => { let n = ncomp2(kind); let c = distinct(rng, n); (compound_from(p, rng, kind, &c), n) }
        }
    };
    let (v, n) = mk(rng);
    let x = pb.load(v);
    match rng.below(3) {
        0 => { pb.call("serde_shape", "m", &[x]); }
        1 => {
            if n > 6 { pb.call("serde_shape", "m", &[x]); return; }
            let toks = ["nzero", "sub", "nsub", "max", "min", "tiny", "third", "pi", "eps", "one", "big", "tenth"];
            let mut a = vec![x];
            for _ in 0..n { a.push(pb.load(t(*rng.pick(&toks)))); }
            pb.call("serde_special", "m", &a);
        }
        _ => {
            if !kind.starts_with("Dec") { pb.call("serde_shape", "m", &[x]); return; }
            // a random arrangement of a subset of the fields, possibly with an unknown one
            let mut keys: Vec<&str> = vec!["scale", "rot", "disp"];
            if rng.chance(1, 2) { let i = rng.below(keys.len()); keys.remove(i); }
            if rng.chance(1, 3) { let i = rng.below(keys.len() + 1); keys.insert(i, "bogus"); }
            for i in (1..keys.len()).rev() { let j = rng.below(i + 1); keys.swap(i, j); }
            let mut a = vec![x];
            for k in &keys { a.push(pb.load(t(k))); }
            pb.call("serde_dec_keys", "m", &a);
        }
    }
}

/// C19 systematic part: for every compound type and every component position, a failure (or a distinct value)
/// at exactly that position, cycling through the 12 x 12 scalar pairs
fn cover_c19(out: &mut Vec<String>, pid: &mut u64, full: bool) {
    let types = ["Vector1", "Vector2", "Vector3", "Vector4", "Point1", "Point2", "Point3", "Matrix2", "Matrix3", "Matrix4", "Quaternion"];
    let distinct = ["one", "two", "seven", "hundred", "zero", "one", "two", "seven", "hundred", "zero", "one", "two", "seven", "hundred", "zero", "one"];
    let risky = ["max", "min", "neg1", "nan", "inf", "half", "p200", "p70000", "huge",
                 "dr1", "dr2", "ndr1", "frac", "nfrac", "tiny", "edge", "nedge", "u8edge", "negfrac", "ninf", "big", "mid"];
    let mut emit = |ty: &str, n: usize, i: usize, r: &str, src: &str, dst: &str| {
        let mut pb = PB::new();
        let mut a = vec![pb.load(t(ty)), pb.load(t(src)), pb.load(t(dst))];
        for j in 0..n { a.push(pb.load(t(if j == i { r } else { distinct[(j + i) % 16] }))); }
        pb.call("cast", "m", &a);
        pb.fsafe = true;
        *pid += 1;
        if let Some(s) = pb.finish(*pid, &["f64"]) { out.push(s); }
    };
    let mut k = 0usize;
    for ty in types.iter() {
        let n = ncomp(ty);
        let dsts: &[&str] = if *ty == "Quaternion" { &["f32", "f64"] } else { &SCALARS };
        for i in 0..n {
            if full || *ty == "Quaternion" || n == 1 {
                // every source/target pair with every special value at this position
                for src in SCALARS.iter() { for dst in dsts.iter() { for r in risky.iter() { emit(ty, n, i, r, src, dst); } } }
            } else {
                // every source/target pair at this position, the special values cycling
                for src in SCALARS.iter() { for dst in dsts.iter() { for _ in 0..2 { k += 1; emit(ty, n, i, risky[k % risky.len()], src, dst); } } }
            }
        }
    }
}

/// systematic part of the small-angle projections: every (representation, route, angle of the table), each about a
/// coordinate axis and about an oblique rational axis
fn cover_small_rot(p: &Pools, rng: &mut Rng, out: &mut Vec<String>, pid: &mut u64, euler_only: bool) {
    let all: &[(&str, &[&str])] = &[
        ("Quaternion", &["direct", "from_angle", "euler", "to_euler", "rotate_vector", "invert", "compose", "via_mat3", "via_basis3", "via_mat4"]),
        ("Matrix3", &["direct", "from_angle", "euler", "invert", "compose", "via_quat", "via_basis3", "via_mat4"]),
        ("Basis3", &["direct", "from_angle", "euler", "rotate_vector", "invert", "compose", "via_quat", "via_mat3"]),
        ("Matrix4", &["direct", "from_angle", "euler", "invert", "compose", "via_quat"]),
    ];
    let (z, o) = (q(0, 1), q(1, 1));
    let e = [Vector3::new(o, z, z), Vector3::new(z, o, z), Vector3::new(z, z, o)];
    let mut emit = |a: Vec<V>, out: &mut Vec<String>| {
        let mut pb = PB::new();
        let regs: Vec<usize> = a.into_iter().map(|v| pb.load(v)).collect();
        pb.call("small_rot_proj", "m", &regs);
        *pid += 1;
        if let Some(s) = pb.finish(*pid, &["Q", "f64", "f32"]) { out.push(s); }
    };
    for (ty, routes) in all {
        for route in routes.iter() {
            let on_axis = matches!(*route, "from_angle" | "euler" | "to_euler");
            if euler_only && !matches!(*route, "euler" | "to_euler") { continue; }
            for dc in 0..12i64 {
                if *route == "to_euler" && dc == 7 { continue; }
                // about a coordinate axis
                let i = rng.below(3);
                let u = uv2(p, rng);
                let v = match i { 0 => Vector3::new(z, u.x, u.y), 1 => Vector3::new(u.x, z, u.y), _ => Vector3::new(u.x, u.y, z) };
                emit(vec![t(ty), t(route), Val::V3(e[i]), Val::V3(v), Val::I(dc)], out);
                // ... and a vector with a component along the axis
                emit(vec![t(ty), t(route), Val::V3(e[i]), Val::V3(uv3(p, rng)), Val::I(dc)], out);
                if !on_axis {
                    let (e1, _e2, e3) = frame(p, rng);
                    emit(vec![t(ty), t(route), Val::V3(e3), Val::V3(e1), Val::I(dc)], out);
                    emit(vec![t(ty), t(route), Val::V3(e3), Val::V3(uv3(p, rng)), Val::I(dc)], out);
                }
            }
        }
    }
    if !euler_only {
        for ty in ["Basis2", "Matrix2"] { for route in ["direct", "invert", "compose"] { for dc in 0..12i64 {
            emit(vec![t(ty), t(route), Val::V2(uv2(p, rng)), Val::I(dc)], out);
        } } }
    }
}

/// one single-call program (pipeline C sweeps)
fn emit1(op: &str, a: Vec<V>, out: &mut Vec<String>, pid: &mut u64) { emit1s(op, a, &["Q", "f64"], out, pid) }
/// ... at the listed scalar types (f32 only where the projection's table makes sense in single precision)
fn emit1s(op: &str, a: Vec<V>, scs: &[&str], out: &mut Vec<String>, pid: &mut u64) {
    let mut pb = PB::new();
    let regs: Vec<usize> = a.into_iter().map(|v| pb.load(v)).collect();
    pb.call(op, "m", &regs);
    *pid += 1;
    if let Some(s) = pb.finish(*pid, scs) { out.push(s); }
}
const F2: &[&str] = &["Q", "f64", "f32"];
/// homogeneity sweeps: every function of the profile with every factor of the recorder's table it is defined for
fn cover_scale(profile: &str, p: &Pools, rng: &mut Rng, out: &mut Vec<String>, pid: &mut u64) {
    // indices into exec_proj::SCALES: 0..3 next to 1, 4..9 = 1e-3 1e3 1e-9 1e9 1e-17 1e17, 10 = -1e-6, 11 12 = 1e-150 1e150, 13 = 1e-170
    const NEAR: &[i64] = &[0, 1, 2, 3];
    const MID: &[i64] = &[4, 5, 6, 7, 8, 9];
    let fns: &[(&str, &[&[i64]])] = match profile {
        "C01" => &[("m4_transform_point", &[NEAR, MID, &[10, 11, 12]]), ("m4_det", &[NEAR, MID, &[10]]), ("m3_det", &[NEAR, MID, &[10]])],
        "C02" => &[("m4_inv_graded", &[&[4, 5, 6, 7]]), ("m3_inv_graded", &[&[4, 5, 6, 7]]), ("m2_inv_graded", &[&[4, 5, 6, 7, 8, 9]]), ("m4_inv_resid", &[NEAR, MID, &[10]]), ("m3_inv_resid", &[NEAR, MID, &[10]]), ("m2_inv_resid", &[NEAR, MID, &[10]]), ("m4_invert", &[NEAR, MID, &[10]]), ("m4_inverse_transform", &[NEAR, MID, &[10]]), ("m3_invert", &[NEAR, MID, &[10]]), ("m2_invert", &[NEAR, MID, &[10]])],
        "C03" => &[("v3_cross", &[NEAR, MID, &[10, 11, 12]]), ("v3_dot", &[NEAR, MID, &[10, 11, 12]]), ("v2_perp_dot", &[NEAR, MID, &[10, 11, 12]]),
                   ("v3_cross_both", &[NEAR, MID, &[10, 11, 12]]), ("v3_dot_both", &[NEAR, MID, &[10, 11, 12]]), ("v2_perp_dot_both", &[NEAR, MID, &[10, 11, 12]])],
        "C04" => &[("q_invert", &[NEAR, MID, &[10]]), ("q_normalize", &[NEAR, MID])],
        "C11" => &[("v3_normalize", &[NEAR, MID]), ("v2_normalize", &[NEAR, MID]), ("v4_normalize", &[NEAR, MID]), ("q_normalize", &[NEAR, MID]), ("v3_magnitude", &[NEAR, MID, &[10]]),
                   ("v3_angle", &[NEAR, MID]), ("v2_angle", &[NEAR, MID]), ("v3_project_on", &[NEAR, MID, &[10]]),
                   ("v3_angle_both", &[NEAR, MID, &[10]]), ("v2_angle_both", &[NEAR, MID, &[10]]), ("v3_project_on_both", &[NEAR, MID, &[10]])],
        "C12" => &[("from_homogeneous", &[NEAR, MID, &[10, 11, 12]])],
        "C15" => &[("from_arc", &[NEAR, &[4, 5]])],
        "C18" => &[("v3_is_zero", &[NEAR, MID, &[10, 11, 12, 13]]), ("v4_is_zero", &[NEAR, MID, &[10, 11, 12, 13]]), ("v2_is_zero", &[NEAR, MID, &[10, 11, 12, 13]])],
        _ => &[],
    };
    let nz3 = |rng: &mut Rng| Vector3::new(small_nz(rng), small_nz(rng), small_nz(rng));
    for (fname, groups) in fns {
        for g in groups.iter() { for &kc in g.iter() { for _rep in 0..2 {
            let args: Vec<V> = match *fname {
                "m4_invert" | "m4_inverse_transform" | "m4_det" | "m4_inv_resid" | "m4_inv_graded" => {
                    // dense, not affine
                    let c = |rng: &mut Rng| Vector4::new(small(rng), small(rng), small(rng), small(rng));
                    let m = loop { let m = Matrix4::from_cols(c(rng), c(rng), c(rng), c(rng)); if m.determinant().n != 0 { break m; } };
                    vec![Val::M4(m)]
                }
                "m3_invert" | "m3_det" | "m3_inv_resid" | "m3_inv_graded" => vec![Val::M3(loop { let m = Matrix3::from_cols(rv3(rng), rv3(rng), rv3(rng)); if m.determinant().n != 0 { break m; } })],
                "m2_invert" | "m2_inv_resid" | "m2_inv_graded" => vec![Val::M2(loop { let m = Matrix2::from_cols(rv2(rng), rv2(rng)); if m.determinant().n != 0 { break m; } })],
                "m4_transform_point" => {
                    // a projective matrix and a point whose image has w != 0
                    let c = |rng: &mut Rng| Vector4::new(small(rng), small(rng), small(rng), small(rng));
                    let (m, pt) = loop { let m = Matrix4::from_cols(c(rng), c(rng), c(rng), c(rng)); let pt = Point3::from_vec(rv3(rng));
                        if (m * pt.to_homogeneous()).w.n != 0 { break (m, pt); } };
                    // every other time an affine matrix (w = 1 before scaling: the scaled one has w = k)
                    if _rep == 1 { let a = Matrix4::from_cols(m.x.truncate().extend(q(0, 1)), m.y.truncate().extend(q(0, 1)), m.z.truncate().extend(q(0, 1)), m.w.truncate().extend(q(1, 1)));
                        vec![Val::M4(a), Val::P3(pt)] } else { vec![Val::M4(m), Val::P3(pt)] }
                }
                "from_homogeneous" => vec![Val::V4(rv3(rng).extend(small_nz(rng)))],
                // every other time a unit quaternion (the scaled one is nearly unit for the factors next to 1)
                "q_invert" | "q_normalize" => vec![Val::Q(if _rep == 1 { uq(p, rng) } else { Quaternion::from_sv(small_nz(rng), rv3(rng)) })],
                "v3_normalize" | "v3_magnitude" | "v3_is_zero" => vec![Val::V3(if _rep == 1 { uv3(p, rng) } else { nz3(rng) })],
                "v2_normalize" | "v2_is_zero" => vec![Val::V2(Vector2::new(small_nz(rng), small(rng)))],
                "v4_normalize" | "v4_is_zero" => vec![Val::V4(nz3(rng).extend(small(rng)))],
                "v2_angle" | "v2_angle_both" | "v2_perp_dot" | "v2_perp_dot_both" => vec![Val::V2(Vector2::new(small_nz(rng), small(rng))), Val::V2(Vector2::new(small(rng), small_nz(rng)))],
                "from_arc" => { let (a, b) = loop { let (a, b) = (nz3(rng), nz3(rng)); let c = a.cross(b); if c.x.n != 0 || c.y.n != 0 || c.z.n != 0 { break (a, b); } }; vec![Val::V3(a), Val::V3(b)] }
                _ => { let (a, b) = loop { let (a, b) = (nz3(rng), nz3(rng)); let c = a.cross(b); if (c.x.n != 0 || c.y.n != 0 || c.z.n != 0) && a.dot(b).n != 0 { break (a, b); } }; vec![Val::V3(a), Val::V3(b)] }
            };
            let mut a = vec![t(fname), Val::I(kc)];
            a.extend(args);
            if kc <= 5 { emit1s("scale_proj", a, F2, out, pid); } else { emit1("scale_proj", a, out, pid); }
        } } }
    }
    if profile == "C01" {
        for code in 0..6 { for _ in 0..3 {
            let c3 = |rng: &mut Rng| rv3(rng);
            let aff = |rng: &mut Rng| Matrix4::from_cols(c3(rng).extend(q(0, 1)), c3(rng).extend(q(0, 1)), c3(rng).extend(q(0, 1)), c3(rng).extend(q(1, 1)));
            emit1s("mm_col_proj", vec![Val::M4(aff(rng)), Val::M4(aff(rng)), Val::I(code)], F2, out, pid);
            let aff2 = |rng: &mut Rng| Matrix3::from_cols(rv2(rng).extend(q(0, 1)), rv2(rng).extend(q(0, 1)), rv2(rng).extend(q(1, 1)));
            emit1s("mm_col_proj", vec![Val::M3(aff2(rng)), Val::M3(aff2(rng)), Val::I(code)], F2, out, pid);
        } }
    }
    if profile == "C03" {
        for gc in 0..4 { for _ in 0..4 {
            let (u, w) = loop { let (u, w) = (nz3(rng), nz3(rng)); let c = u.cross(w); if c.x.n != 0 || c.y.n != 0 || c.z.n != 0 { break (u, w); } };
            emit1("cross_near_proj", vec![Val::V3(u), Val::V3(w), Val::I(gc)], out, pid);
        } }
    }
    let _ = p;
}

/// generic homogeneity sweep (hom_proj): operations of the machine, in their operand forms, with every compound argument
/// scaled by each factor of the recorder's table; the degree is the model's claim (HomDegrees in ApiMisc.tla)
fn cover_hom(profile: &str, p: &Pools, rng: &mut Rng, out: &mut Vec<String>, pid: &mut u64) {
    // (op, forms, argument kinds, degree (0 = the dimension for det), dimensions)
    type E = (&'static str, &'static [&'static str], &'static str, i64, &'static [usize]);
    const F4A: &[&str] = &["vv", "rr", "as"];
    const F4: &[&str] = &["vv", "rv", "vr", "rr"];
    const F2A: &[&str] = &["vv", "as"];
    const M: &[&str] = &["m"];
    const D24: &[usize] = &[2, 3, 4];
    const D14: &[usize] = &[1, 2, 3, 4];
    const D13: &[usize] = &[1, 2, 3];
    const D0: &[usize] = &[0];
    let table: &[E] = match profile {
        "C01" => &[("add", F4A, "MM", 1, D24), ("sub", F4A, "MM", 1, D24), ("neg", &["v", "r"], "M", 1, D24), ("mul_s", F2A, "MS", 1, D24), ("mul", F4, "MV", 2, D24),
                   ("mul", F4, "MM", 2, D24), ("transpose", M, "M", 1, D24), ("transpose_self", M, "M", 1, D24), ("trace", M, "M", 1, D24), ("diagonal", M, "M", 1, D24),
                   ("from_diagonal", M, "V", 1, D24), ("row", M, "MI", 1, D24), ("col", M, "MI", 1, D24), ("swap_rows", M, "MII", 1, D24), ("swap_cols", M, "MII", 1, D24)],
        "C02" => &[("invert", M, "M", -1, D24), ("det", M, "M", 0, D24), ("transpose", M, "M", 1, D24)],
        "C03" => &[("add", F4A, "VV", 1, D14), ("sub", F4A, "VV", 1, D14), ("neg", &["v"], "V", 1, D14), ("mul_s", F2A, "VS", 1, D14), ("div_s", F2A, "VS", 1, D14),
                   ("dot", &["m", "free"], "VV", 2, D14), ("cross", M, "VV", 2, &[3]), ("perp_dot", M, "VV", 2, &[2]), ("mag2", M, "V", 2, D14), ("lerp", M, "VVS", 1, D14),
                   ("mul_ew", &["m", "as"], "VV", 2, D14), ("add_ew", &["m", "as"], "VV", 1, D14), ("sum", M, "V", 1, D14), ("truncate", M, "V", 1, &[3, 4])],
        "C04" => &[("add", F4A, "QQ", 1, D0), ("sub", F4A, "QQ", 1, D0), ("mul", F4, "QQ", 2, D0), ("mul_s", F2A, "QS", 1, D0), ("conjugate", M, "Q", 1, D0), ("dot", M, "QQ", 2, D0),
                   ("mag2", M, "Q", 2, D0), ("rot_invert", M, "Q", -1, D0), ("neg", &["v", "r"], "Q", 1, D0)],
        "C11" => &[("magnitude", M, "V", 1, D14), ("normalize", M, "V", 0, D14), ("distance", M, "VV", 1, &[2, 3]), ("distance2", M, "VV", 2, &[2, 3]), ("project_on", M, "VV", 1, &[2, 3, 4]),
                   ("angle", M, "VV", 0, &[2, 3, 4]), ("angle", M, "QQ", 0, D0), ("magnitude", M, "Q", 1, D0), ("normalize", M, "Q", 0, D0)],
        "C12" => &[("add", F4A, "PV", 1, D13), ("sub", F4, "PP", 1, D13), ("sub", F4A, "PV", 1, D13), ("mul_s", F2A, "PS", 1, D13), ("to_vec", M, "P", 1, D13), ("from_vec", M, "V", 1, D13),
                   ("midpoint", M, "PP", 1, D13), ("dot", M, "PV", 2, D13), ("distance2", M, "PP", 2, D13), ("from_homogeneous", M, "V", 0, &[4])],
        "C14" => &[("lerp", M, "QQS", 1, D0), ("lerp", M, "VVS", 1, &[2, 3, 4]), ("nlerp", M, "QQS", 0, D0)],
        "C03s" => &[("mul_s", &["vv@s", "rv@s", "as@s"], "VS", 1, D14), ("div_s", &["vv@s", "rv@s", "as@s"], "VS", -1, D14), ("mul_ew", &["m@s", "as@s"], "VS", 1, D14),
                    ("div_ew", &["m@s", "as@s"], "VS", -1, D14)],
        "C01s" => &[("mul_s", &["vv@s", "as@s"], "MS", 1, D24), ("div_s", &["vv@s", "as@s"], "MS", -1, D24)],
        "C04s" => &[("mul_s", &["vv@s", "as@s"], "QS", 1, D0), ("div_s", &["vv@s", "as@s"], "QS", -1, D0)],
        "C12s" => &[("mul_s", &["vv@s", "as@s"], "PS", 1, D13), ("div_s", &["vv@s", "as@s"], "PS", -1, D13)],
        "C11s" => &[("normalize_to", &["m@s"], "VS", 1, &[2, 3, 4])],
        _ => &[],
    };
    let small_t = |rng: &mut Rng| *rng.pick(&[q(1, 4), q(1, 2), q(2, 3), q(1, 3)]);
    for (op, forms, spec, deg, dims) in table.iter() {
        for &n in dims.iter() { for form in forms.iter() { for &kc in &[0i64, 1, 2, 4, 5, 6, 7, 8, 9, 10, 11, 12] { for rep in 0..2 {
            // a negative factor flips what depends on the orientation: lengths and unit directions are excluded there
            if kc == 10 && matches!(*op, "magnitude" | "normalize" | "distance" | "nlerp") { continue; }
            // 1e-150 / 1e150: only where no product of two scaled quantities other than squares of lengths is formed
            if kc >= 11 && !matches!(*op, "add" | "sub" | "neg" | "angle" | "magnitude" | "normalize" | "distance" | "transpose" | "conjugate" | "to_vec" | "from_vec" | "midpoint") { continue; }
            if kc >= 11 && spec.contains('M') && *op != "transpose" { continue; }
            // the atan2-based angle of Vector2 / Vector3 squares the cross product: only the acos-based one (4-D, quaternions) out there
            if kc >= 11 && *op == "angle" && !(n == 4 || *spec == "QQ") { continue; }
            // every other time the arguments are special: unit vectors and quaternions, rotation matrices
            let special = rep == 1;
            let mut a: Vec<V> = vec![t(op), t(form), Val::I(kc), Val::I(if *op == "det" { n as i64 } else { *deg })];
            for (i, ch) in spec.chars().enumerate() {
                a.push(match ch {
                    'M' if special => match n { 2 => { let u = uv2(p, rng); Val::M2(Matrix2::new(u.x, u.y, -u.y, u.x)) }
                                                3 => Val::M3(Matrix3::from(uq(p, rng))), _ => Val::M4(Matrix4::from(Matrix3::from(uq(p, rng)))) },
                    'V' if special && n >= 2 => match n { 2 => Val::V2(uv2(p, rng)), 3 => Val::V3(uv3(p, rng)), _ => { let u = uq(p, rng); Val::V4(Vector4::new(u.s, u.v.x, u.v.y, u.v.z)) } },
                    'Q' if special => Val::Q(uq(p, rng)),
                    'M' => match n { 2 => Val::M2(loop { let m = Matrix2::from_cols(rv2(rng), rv2(rng)); if m.determinant().n != 0 { break m; } }),
                                     3 => Val::M3(loop { let m = Matrix3::from_cols(rv3(rng), rv3(rng), rv3(rng)); if m.determinant().n != 0 { break m; } }),
                                     _ => { let c = |rng: &mut Rng| Vector4::new(small(rng), small(rng), small(rng), small(rng));
                                            Val::M4(loop { let m = Matrix4::from_cols(c(rng), c(rng), c(rng), c(rng)); if m.determinant().n != 0 { break m; } }) } },
                    'V' => { let d = if *op == "mul" { n } else { n };
                             match d { 1 => Val::V1(Vector1::new(small_nz(rng))), 2 => Val::V2(Vector2::new(small_nz(rng), small_nz(rng))),
                                       3 => Val::V3(Vector3::new(small_nz(rng), small_nz(rng), small_nz(rng))), _ => Val::V4(Vector4::new(small_nz(rng), small_nz(rng), small_nz(rng), small_nz(rng))) } }
                    'P' => match n { 1 => Val::P1(Point1::new(small_nz(rng))), 2 => Val::P2(Point2::new(small_nz(rng), small_nz(rng))), _ => Val::P3(Point3::new(small_nz(rng), small_nz(rng), small_nz(rng))) },
                    'Q' => Val::Q(if *op == "nlerp" { uq(p, rng) } else { Quaternion::from_sv(small_nz(rng), Vector3::new(small_nz(rng), small_nz(rng), small_nz(rng))) }),
                    'S' => vs(if *op == "lerp" || *op == "nlerp" { small_t(rng) } else { small_nz(rng) }),
                    'I' => Val::I(if i == 1 { 0 } else { (n - 1) as i64 }),
                    _ => Val::Nil,
                });
            }
            // nlerp of exactly orthogonal quaternions may take either arc (the sign of a rounded zero decides)
            if *op == "nlerp" { if let (Val::Q(x), Val::Q(y)) = (&a[4], &a[5]) { if x.dot(*y).n == 0 { continue; } } }
            if kc <= 5 { emit1s("hom_proj", a, F2, out, pid); } else { emit1("hom_proj", a, out, pid); }
        } } } }
    }
    if profile == "C13" {
        // atan2 is homogeneous of degree 0 in its pair of arguments, however small or large they are
        for unit in ["Rad", "Deg"] { for kc in [0i64, 4, 5, 6, 7, 8, 9, 10, 11, 12, 13] { for _ in 0..2 {
            if kc == 10 { continue; }
            emit1("hom_proj", vec![t("atan2"), t("m@s"), Val::I(kc), Val::I(0), t(unit), vs(small_nz(rng)), vs(small_nz(rng))], out, pid);
        } } }
    }
}

/// systematic parts of the other native-arithmetic projections: every combination of their small tables
fn cover_proj(profile: &str, p: &Pools, rng: &mut Rng, out: &mut Vec<String>, pid: &mut u64) {
    cover_scale(profile, p, rng, out, pid);
    cover_hom(profile, p, rng, out, pid);
    if matches!(profile, "C01" | "C03" | "C04" | "C11" | "C12") { cover_hom(&format!("{}s", profile), p, rng, out, pid); }
    if profile == "C13" { cover_hom("C13", p, rng, out, pid); }
    match profile {
        "C15" => {
            for kind in ["quat", "basis3", "arc"] { for anti in [false, true] {
                let top = if kind == "arc" || anti { 2 } else { 3 };
                for dc in 0..=top { for _ in 0..2 {
                    let (e1, _e2, e3) = frame(p, rng);
                    let sc = |rng: &mut Rng| if kind == "arc" { *rng.pick(&[q(1, 1), q(1, 1000), q(1000, 1), q(7, 2), q(1, 40), q(250, 1)]) } else { q(1, 1) };
                    emit1("arc_proj", vec![t(kind), Val::V3(e1), Val::V3(e3), Val::I(dc), Val::B(anti), vs(sc(rng)), vs(sc(rng))], out, pid);
                } }
            } }
            for dc in 0..4 { for anti in [false, true] { for cw in [false, true] {
                emit1("arc_proj", vec![t("basis2"), Val::V2(uv2(p, rng)), Val::I(dc), Val::B(anti), Val::B(cw)], out, pid);
            } } }
        }
        "C11" => {
            for dc in 0..4 { for anti in [false, true] { for (s1, s2) in [(q(1, 1), q(1, 1)), (q(1000, 1), q(1, 1000)), (q(7, 2), q(1, 40))] {
                for _ in 0..2 { let (e1, e2, _e3) = frame(p, rng);
                    emit1("angle_near_proj", vec![Val::V3(e1), Val::V3(e2), Val::I(dc), Val::B(anti), vs(s1), vs(s2)], out, pid); }
                for cw in [false, true] {
                    emit1("angle_near_proj", vec![Val::V2(uv2(p, rng)), Val::I(dc), Val::B(anti), Val::B(cw), vs(s1), vs(s2)], out, pid); }
            } } }
            for ty in 0..4 { for gc in 0..6 { for neg in [false, true] {
                let x = match ty { 0 => Val::V2(uv2(p, rng)), 1 => Val::V3(uv3(p, rng)),
                                   2 => { let u = uq(p, rng); Val::V4(Vector4::new(u.s, u.v.x, u.v.y, u.v.z)) } _ => Val::Q(uq(p, rng)) };
                emit1s("norm_proj", vec![x, Val::I(gc), Val::B(neg)], F2, out, pid);
            } } }
        }
        "C13" => {
            for unit in ["Rad", "Deg"] { for code in 0..8 { for neg in [false, true] {
                emit1s("inv_trig_proj", vec![t(unit), Val::I(code), Val::B(neg)], F2, out, pid);
            } } }
            for m in [7i128, 100, 5000, 100_000, 1_000_000, 3_000_000] { for sg in [1i128, -1] {
                emit1s("trig_big_proj", vec![vs(q(sg * (3 * m + 1), 3))], F2, out, pid);
            } }
            // inside the first turn: next to 0, to a quarter and to a half turn, and a generic angle (all seven functions)
            for x in [q(1, 1000), q(1, 1_000_000), q(1, 1_000_000_000), q(314, 100), q(15707, 10000), q(7, 10), q(10003, 10), q(-3, 1000), q(2, 1)] {
                emit1s("trig_big_proj", vec![vs(x)], F2, out, pid);
            }
        }
        "C08" => {
            for rep in 0..12 {
                // projective and affine 4x4 matrices, dense 3x3 ones
                let c = |rng: &mut Rng| Vector4::new(small(rng), small(rng), small(rng), small(rng));
                let m = if rep % 3 == 2 { Val::M3(loop { let m = Matrix3::from_cols(rv3(rng), rv3(rng), rv3(rng)); if m.determinant().n != 0 { break m; } }) }
                        else { Val::M4(loop { let m = if rep % 3 == 0 { Matrix4::from_cols(c(rng), c(rng), c(rng), c(rng)) } else { Matrix4::from_cols(rv3(rng).extend(q(0, 1)), rv3(rng).extend(q(0, 1)), rv3(rng).extend(q(0, 1)), rv3(rng).extend(q(1, 1))) };
                                               if m.determinant().n != 0 { break m; } }) };
                emit1s("inv_vec_agree_proj", vec![m, Val::V3(Vector3::new(small_nz(rng), small_nz(rng), small_nz(rng)))], F2, out, pid);
            }
            for kind in ["DecQ", "Dec3", "DecQ_mul", "Matrix4", "Mat_of_concat"] {
                for (e1, e2, f1, f2) in [(0i64, 0i64, 0i64, 0i64), (-5, 0, 0, 0), (0, -5, 6, 0), (5, -5, 0, 6), (-5, 5, 6, -6), (3, 3, -6, 6), (-3, -2, 6, 6)] {
                    let nz3 = |rng: &mut Rng| Vector3::new(small_nz(rng), small_nz(rng), small_nz(rng));
                    emit1s("dec_concat_proj", vec![t(kind), Val::Q(uq(p, rng)), Val::Q(uq(p, rng)), Val::V3(nz3(rng)), Val::V3(nz3(rng)), Val::V3(nz3(rng)),
                                                  Val::I(e1), Val::I(e2), Val::I(f1), Val::I(f2)], F2, out, pid);
                }
            }
            for kind in ["Matrix4", "Matrix4_invert", "Matrix3", "Matrix3_invert", "DecQ", "Dec3", "DecQ_vector"] {
                let mut scales = vec![q(3, 1_000_000), q(-5, 2_000_000), q(1, 100_000), q(-1, 10_000), q(1, 250), q(1, 8), q(3, 2)];
                if kind.starts_with("Matrix") { scales.push(q(1, 10_000_000)); scales.push(q(-1, 100_000_000)); }
                for sc in scales {
                    let nz3 = |rng: &mut Rng| Vector3::new(small_nz(rng), small_nz(rng), small_nz(rng));
                    emit1s("tiny_inv_proj", vec![t(kind), vs(sc), Val::Q(uq(p, rng)), Val::V3(nz3(rng)), Val::V3(nz3(rng))], F2, out, pid);
                    for dexp in [2i64, 4, 6] {
                        emit1s("tiny_inv_proj", vec![t(kind), vs(sc), Val::Q(uq(p, rng)), Val::V3(nz3(rng)), Val::V3(nz3(rng)), Val::I(dexp)], F2, out, pid);
                    }
                }
            }
        }
        "C10" => {
            for fc in 0..4 { for hc in 0..3 { for (n, fa) in [(q(1, 2), q(10, 1)), (q(1, 1), q(1000, 1))] {
                emit1("planar_far_proj", vec![Val::I(fc), Val::I(hc), vs(n), vs(fa)], out, pid);
            } } }
            for ctor in ["perspective", "perspective_deg", "perspective_fov"] { for fc in 0..6 { for (n, fa) in [(q(1, 2), q(10, 1)), (q(1, 100), q(1000, 1))] {
                emit1("fov_proj", vec![t(ctor), Val::I(fc), vs(n), vs(fa)], out, pid);
            } } }
            for ctor in ["perspective", "perspective_fov", "frustum", "perspective_struct", "ortho", "planar"] {
                for n in [q(1, 1000), q(1, 2), q(1, 1), q(10, 1)] { for rc in 0..4 {
                    emit1s("deep_proj", vec![t(ctor), vs(n), Val::I(rc)], F2, out, pid);
                } }
            }
            for ctor in ["perspective", "perspective_fov", "frustum", "perspective_struct", "ortho", "planar"] {
                for n in [q(1, 2), q(1, 1), q(3, 1), q(10, 1), q(250, 1), q(1, 16)] { for gc in 0..4 {
                    emit1("slab_proj", vec![t(ctor), vs(n), Val::I(gc)], out, pid);
                } }
            }
        }
        "C02" => {
            for gc in 0..4 { for n in [2usize, 3, 4] { for _ in 0..3 {
                let m = match n { 2 => Val::M2(loop { let m = Matrix2::from_cols(rv2(rng), rv2(rng)); if m.determinant().n != 0 { break m; } }),
                                  3 => Val::M3(loop { let m = Matrix3::from_cols(rv3(rng), rv3(rng), rv3(rng)); if m.determinant().n != 0 { break m; } }),
                                  _ => { let c = |rng: &mut Rng| Vector4::new(small(rng), small(rng), small(rng), small(rng));
                                         Val::M4(loop { let m = Matrix4::from_cols(c(rng), c(rng), c(rng), c(rng)); if m.determinant().n != 0 { break m; } }) } };
                // (double precision only: in f32 the rounding of the determinant, eps |M|^n, is of the size of g det M itself)
                emit1("near_sing_proj", vec![m, Val::I(gc)], out, pid);
            } } }
            // subnormal determinants: monomial matrices with entries +-1, +-2, +-1/2 (scaled natively by the recorder), f64 and f32
            for n in [2usize, 3] { for route in 0..2i64 { for _ in 0..6 {
                let ent = |rng: &mut Rng| *rng.pick(&[q(1, 1), q(-1, 1), q(2, 1), q(-2, 1), q(1, 2), q(-1, 2)]);
                let z = q(0, 1);
                let m = if n == 2 {
                    let (a, b) = (ent(rng), ent(rng));
                    Val::M2(if rng.chance(1, 2) { Matrix2::new(a, z, z, b) } else { Matrix2::new(z, a, b, z) })
                } else {
                    let perms: [[usize; 3]; 6] = [[0, 1, 2], [0, 2, 1], [1, 0, 2], [1, 2, 0], [2, 0, 1], [2, 1, 0]];
                    let pm = perms[rng.below(6)];
                    let col = |r: usize, x: Q| { let mut v = [z, z, z]; v[r] = x; Vector3::new(v[0], v[1], v[2]) };
                    Val::M3(Matrix3::from_cols(col(pm[0], ent(rng)), col(pm[1], ent(rng)), col(pm[2], ent(rng))))
                };
                emit1s("subnormal_det_proj", vec![m, Val::I(route)], F2, out, pid);
            } } }
        }
        "C12" => {
            // centroid of 2^24 + 1 equal points (one call per dimension: each allocates the slice)
            emit1("centroid_big_proj", vec![Val::P1(Point1::new(q(*rng.pick(&[3, 7, -5, 11, 1000]), 1)))], out, pid);
            emit1("centroid_big_proj", vec![Val::P2(Point2::new(q(*rng.pick(&[3, -7, 5, 999]), 1), q(*rng.pick(&[-3, 13, 1]), 1)))], out, pid);
        }
        "C05" | "C06" => {
            let (z, o) = (q(0, 1), q(1, 1));
            let e = [Vector3::new(o, z, z), Vector3::new(z, o, z), Vector3::new(z, z, o)];
            for ty in ROT3 { for route in ["direct", "invert", "compose", "via_quat", "via_mat3", "via_basis3"] { for tc in 0..4 { for dc in [1i64, 4, 5, 6, 8, 9, 11] {
                if (route == "via_quat" && *ty == "Quaternion") || (route == "via_mat3" && (*ty == "Matrix3" || *ty == "Matrix4")) || (route == "via_basis3" && (*ty == "Basis3" || *ty == "Matrix4")) { continue; }
                let i = rng.below(3);
                emit1("tilt_rot_proj", vec![t(ty), t(route), Val::V3(e[i]), Val::V3(e[(i + 1) % 3]), Val::V3(uv3(p, rng)), Val::I(dc), Val::I(tc)], out, pid);
            } } } }
        }
        "C18" => {
            // the three relations with the compound types' own default tolerances: every kind, equal and unequal pairs
            for kind in ["Vector1", "Vector2", "Vector3", "Vector4", "Point1", "Point2", "Point3", "Matrix2", "Matrix3", "Matrix4", "Quaternion", "Basis2", "Basis3", "DecQ", "Dec3", "Dec2"] {
                let n = ncomp2(kind);
                for d in [q(0, 1), q(1, 16)] {
                    let c: Vec<Q> = (0..n).map(|_| q(rng.range(-8, 8) as i128, *rng.pick(&[1, 2, 4]))).collect();
                    let i = rng.below(n);
                    let mut pb = PB::new();
                    let (x, y) = (pb.load(compound_from(p, rng, kind, &c)), pb.load(compound_from(p, rng, kind, &perturb(&c, i, d))));
                    let (e, r, u) = (pb.load(vs(q(1, 8))), pb.load(vs(q(1, 8))), pb.load(Val::I(4)));
                    pb.call("abs_diff_eq", "default", &[x, y, e]);
                    pb.call("relative_eq", "default", &[x, y, e, r]);
                    pb.call("ulps_eq", "default", &[x, y, e, u]);
                    *pid += 1;
                    if let Some(s) = pb.finish(*pid, &["Q", "f64", "f32"]) { out.push(s); }
                }
            }
            for pred in ["is_symmetric", "is_diagonal"] { for n in [2usize, 3, 4] { for code in 0..5 { for e in [0i64, 12, -12] {
                // an exactly symmetric (or diagonal) matrix with distinct entries; one off-diagonal element is then moved
                let sym = |c: usize, r: usize| -> Q { if pred == "is_diagonal" { if c == r { q((c + 2) as i128, 1) } else { q(0, 1) } } else { q(((c.min(r) * 4 + c.max(r)) + 1) as i128, 3) } };
                let (cc, rr) = (rng.below(n), rng.below(n));
                let (cc, rr) = if cc == rr { ((cc + 1) % n, rr) } else { (cc, rr) };
                let m = match n { 2 => Val::M2(Matrix2::new(sym(0, 0), sym(0, 1), sym(1, 0), sym(1, 1))),
                                  3 => Val::M3(Matrix3::new(sym(0, 0), sym(0, 1), sym(0, 2), sym(1, 0), sym(1, 1), sym(1, 2), sym(2, 0), sym(2, 1), sym(2, 2))),
                                  _ => Val::M4(Matrix4::new(sym(0, 0), sym(0, 1), sym(0, 2), sym(0, 3), sym(1, 0), sym(1, 1), sym(1, 2), sym(1, 3),
                                                            sym(2, 0), sym(2, 1), sym(2, 2), sym(2, 3), sym(3, 0), sym(3, 1), sym(3, 2), sym(3, 3))) };
                emit1s("pred_near_proj", vec![t(pred), m, Val::I(cc as i64), Val::I(rr as i64), Val::I(code), Val::I(e)], F2, out, pid);
            } } } }
        }
        "C17" => {
            // every spelling bit for bit, on operands that are not exactly representable
            let nz3 = |rng: &mut Rng| Vector3::new(small_nz(rng), small_nz(rng), small_nz(rng));
            for _ in 0..3 {
                let m3 = |rng: &mut Rng| Val::M3(Matrix3::from_cols(rv3(rng), rv3(rng), rv3(rng)));
                let m4 = |rng: &mut Rng| { let c = |rng: &mut Rng| Vector4::new(small(rng), small(rng), small(rng), small(rng)); Val::M4(Matrix4::from_cols(c(rng), c(rng), c(rng), c(rng))) };
                let m2 = |rng: &mut Rng| Val::M2(Matrix2::from_cols(rv2(rng), rv2(rng)));
                let qq = |rng: &mut Rng| Val::Q(Quaternion::from_sv(small_nz(rng), nz3(rng)));
                for op in ["add", "sub"] {
                    emit1s("forms_eq_proj", vec![t(op), Val::V3(nz3(rng)), Val::V3(nz3(rng))], F2, out, pid);
                    emit1s("forms_eq_proj", vec![t(op), m3(rng), m3(rng)], F2, out, pid);
                    emit1s("forms_eq_proj", vec![t(op), m4(rng), m4(rng)], F2, out, pid);
                    emit1s("forms_eq_proj", vec![t(op), qq(rng), qq(rng)], F2, out, pid);
                    emit1s("forms_eq_proj", vec![t(op), Val::P3(Point3::from_vec(nz3(rng))), Val::V3(nz3(rng))], F2, out, pid);
                }
                for op in ["mul_s", "div_s"] {
                    let s = || vs(q(3, 1));
                    emit1s("forms_eq_proj", vec![t(op), Val::V3(nz3(rng)), s()], F2, out, pid);
                    emit1s("forms_eq_proj", vec![t(op), m2(rng), s()], F2, out, pid);
                    emit1s("forms_eq_proj", vec![t(op), m3(rng), s()], F2, out, pid);
                    emit1s("forms_eq_proj", vec![t(op), m4(rng), s()], F2, out, pid);
                    emit1s("forms_eq_proj", vec![t(op), qq(rng), s()], F2, out, pid);
                    emit1s("forms_eq_proj", vec![t(op), Val::P3(Point3::from_vec(nz3(rng))), s()], F2, out, pid);
                }
                emit1s("forms_eq_proj", vec![t("mul"), m3(rng), m3(rng)], F2, out, pid);
                emit1s("forms_eq_proj", vec![t("mul"), m4(rng), m4(rng)], F2, out, pid);
                emit1s("forms_eq_proj", vec![t("mul"), m3(rng), Val::V3(nz3(rng))], F2, out, pid);
                emit1s("forms_eq_proj", vec![t("mul"), qq(rng), qq(rng)], F2, out, pid);
                emit1s("forms_eq_proj", vec![t("neg"), m3(rng)], F2, out, pid);
                emit1s("forms_eq_proj", vec![t("neg"), qq(rng)], F2, out, pid);
            }
        }
        "C14" => {
            for tc in 0..5 { for ty in 0..4 {
                let x = match ty { 0 => Val::V3(rv3(rng) + Vector3::new(q(7, 1), q(7, 1), q(7, 1))), 1 => Val::V2(rv2(rng) + Vector2::new(q(9, 1), q(9, 1))),
                                   2 => Val::Q(uq(p, rng)), _ => Val::M2(Matrix2::from_cols(rv2(rng), rv2(rng))) };
                emit1("lerp_far_proj", vec![x, Val::I(tc)], out, pid);
            } }
            for which in ["nlerp", "slerp"] { for dc in 0..5 { for opp in [false, true] { for _ in 0..2 {
                emit1s("lerp_end_proj", vec![t(which), Val::Q(uq(p, rng)), Val::V3(uv3(p, rng)), Val::I(dc), Val::B(opp)], F2, out, pid);
            } } } }
        }
        "C09" => {
            // every look_* entry point with up and dir over nine orders of magnitude
            let entries: Vec<(&str, &str, &str)> = vec![
                ("mat3_look_to", "lh", ""), ("mat3_look_to", "rh", ""), ("mat3_look_to", "dep", ""),
                ("mat4_look_to", "lh", ""), ("mat4_look_to", "rh", ""), ("mat4_look_to", "dep", ""),
                ("mat4_look_at", "lh", ""), ("mat4_look_at", "rh", ""), ("mat4_look_at", "dep", ""),
                ("rot_look_at", "m", "Quaternion"), ("rot_look_at", "m", "Basis3"),
                ("tf_look_at", "dep", "Matrix4"), ("tf_look_at", "rh", "Matrix4"), ("tf_look_at", "lh", "Matrix4"),
                ("tf_look_at", "dep", "Matrix3_3"), ("tf_look_at", "rh", "Matrix3_3"), ("tf_look_at", "lh", "Matrix3_3"),
                ("tf_look_at", "dep", "DecQ"), ("tf_look_at", "rh", "DecQ"), ("tf_look_at", "lh", "DecQ"),
                ("tf_look_at", "dep", "Dec3"), ("tf_look_at", "rh", "Dec3"), ("tf_look_at", "lh", "Dec3")];
            for (inner, form, ty) in entries {
                for us in [q(1, 1_000_000_000), q(1, 100_000_000), q(1, 10_000), q(1000, 1)] {
                    for ds in [q(1, 1), q(1, 1000), q(1000, 1)] {
                        let iv = |rng: &mut Rng| Vector3::new(Q::int(rng.range(-6, 6) as i128), Q::int(rng.range(-6, 6) as i128), Q::int(rng.range(-6, 6) as i128));
                        let (d0, u0) = loop { let (d0, u0) = (iv(rng), iv(rng)); let c = d0.cross(u0); if c.x.n != 0 || c.y.n != 0 || c.z.n != 0 { break (d0, u0); } };
                        let (dir, up) = (d0 * ds, u0 * us);
                        let eye = Point3::from_vec(iv(rng));
                        let mut a = vec![t(inner), t(form)];
                        match inner {
                            "mat3_look_to" => { a.push(Val::V3(dir)); a.push(Val::V3(up)); }
                            "mat4_look_to" => { a.push(Val::P3(eye)); a.push(Val::V3(dir)); a.push(Val::V3(up)); }
                            "mat4_look_at" => { a.push(Val::P3(eye)); a.push(Val::P3(eye + dir)); a.push(Val::V3(up)); }
                            "rot_look_at" => { a.push(t(ty)); a.push(Val::V3(dir)); a.push(Val::V3(up)); }
                            _ => { a.push(t(ty)); a.push(Val::P3(eye)); a.push(Val::P3(eye + dir)); a.push(Val::V3(up)); }
                        }
                        emit1s("look_proj", a, F2, out, pid);
                    }
                }
            }
            // up a hair off the viewing direction (1e-2 .. 1e-5 rad): Matrix3 / Matrix4 / rotations / Decomposed
            for (inner, form, ty) in [("mat3_look_to", "lh", ""), ("mat3_look_to", "rh", ""), ("mat4_look_to", "lh", ""), ("mat4_look_to", "rh", ""), ("mat4_look_at", "rh", ""),
                                      ("rot_look_at", "m", "Quaternion"), ("rot_look_at", "m", "Basis3"), ("tf_look_at", "rh", "Matrix3_3"), ("tf_look_at", "lh", "DecQ"), ("tf_look_at", "rh", "Dec3")] {
                for ue in [-2i64, -3, -5] {
                    let iv = |rng: &mut Rng| Vector3::new(Q::int(rng.range(-6, 6) as i128), Q::int(rng.range(-6, 6) as i128), Q::int(rng.range(-6, 6) as i128));
                    let (dir, u0) = loop { let (d0, u0) = (iv(rng), iv(rng)); let c = d0.cross(u0); if c.x.n != 0 || c.y.n != 0 || c.z.n != 0 { break (d0, u0); } };
                    let eye = Point3::from_vec(iv(rng));
                    let mut a = vec![t(inner), t(form), Val::I(ue)];
                    match inner {
                        "mat3_look_to" => { a.push(Val::V3(dir)); a.push(Val::V3(u0)); }
                        "mat4_look_to" => { a.push(Val::P3(eye)); a.push(Val::V3(dir)); a.push(Val::V3(u0)); }
                        "mat4_look_at" => { a.push(Val::P3(eye)); a.push(Val::P3(eye + dir)); a.push(Val::V3(u0)); }
                        "rot_look_at" => { a.push(t(ty)); a.push(Val::V3(dir)); a.push(Val::V3(u0)); }
                        _ => { a.push(t(ty)); a.push(Val::P3(eye)); a.push(Val::P3(eye + dir)); a.push(Val::V3(u0)); }
                    }
                    emit1("look_near_proj", a, out, pid);
                }
            }
            // two dimensions, exact: every 2-D entry point (the random part above reaches each only now and then)
            for _ in 0..3 {
                let u = uv2(p, rng);
                let dir = Vector2::new(u.x, u.y) * small_pos(rng);
                let up = loop { let up = rv2(rng); if up.perp_dot(dir).n != 0 { break up; } };
                let eye = Point2::from_vec(rv2(rng));
                emit1("look_at2", vec![t("Matrix2"), Val::V2(dir), Val::V2(up)], out, pid);
                emit1("rot_look_at", vec![t("Basis2"), Val::V2(dir), Val::V2(up)], out, pid);
                for ty in ["Matrix2", "Basis2"] { for fl in [false, true] { emit1("look_at_stable", vec![t(ty), Val::V2(dir), Val::B(fl)], out, pid); } }
                for ty in ["Matrix3_2", "Dec2"] { for form in ["dep", "rh", "lh"] {
                    let mut pb = PB::new();
                    let a = [pb.load(t(ty)), pb.load(Val::P2(eye)), pb.load(Val::P2(eye + dir)), pb.load(Val::V2(up))];
                    pb.call("tf_look_at", form, &a);
                    *pid += 1;
                    if let Some(s) = pb.finish(*pid, &["Q", "f64"]) { out.push(s); }
                } }
            }
            // two dimensions: Matrix2 / Basis2 look_at with dir and up over many orders of magnitude
            for kind in ["Matrix2", "Basis2"] { for (ue, de) in [(0i64, 0i64), (-9, -9), (-9, 0), (0, -9), (-17, 0), (-12, -12), (9, 9), (-30, 3)] { for _ in 0..2 {
                let iv2 = |rng: &mut Rng| Vector2::new(Q::int(rng.range(-6, 6) as i128), Q::int(rng.range(-6, 6) as i128));
                let (d0, u0) = loop { let (d0, u0) = (iv2(rng), iv2(rng)); if d0.perp_dot(u0).n != 0 { break (d0, u0); } };
                emit1("look2_mag_proj", vec![t(kind), Val::V2(d0), Val::V2(u0), Val::I(ue), Val::I(de)], out, pid);
            } } }
            // ... and far beyond what a rational of the model can express: scaled natively by powers of ten
            let entries2: Vec<(&str, &str, &str)> = vec![
                ("mat3_look_to", "lh", ""), ("mat3_look_to", "rh", ""), ("mat3_look_to", "dep", ""),
                ("mat4_look_to", "lh", ""), ("mat4_look_to", "rh", ""), ("mat4_look_to", "dep", ""),
                ("mat4_look_at", "lh", ""), ("mat4_look_at", "rh", ""), ("mat4_look_at", "dep", ""),
                ("rot_look_at", "m", "Quaternion"), ("rot_look_at", "m", "Basis3"),
                ("tf_look_at", "dep", "Matrix4"), ("tf_look_at", "rh", "Matrix4"), ("tf_look_at", "lh", "Matrix4"),
                ("tf_look_at", "dep", "Matrix3_3"), ("tf_look_at", "rh", "Matrix3_3"), ("tf_look_at", "lh", "Matrix3_3"),
                ("tf_look_at", "dep", "DecQ"), ("tf_look_at", "rh", "DecQ"), ("tf_look_at", "lh", "DecQ"),
                ("tf_look_at", "dep", "Dec3"), ("tf_look_at", "rh", "Dec3"), ("tf_look_at", "lh", "Dec3")];
            for (inner, form, ty) in entries2 {
                let at = inner == "mat4_look_at" || inner == "tf_look_at";
                for (ue, de) in [(-17i64, 0i64), (-30, 0), (17, 0), (0, -17), (-9, 9), (3, -3), (0, 17), (0, -9), (0, -12)] {
                    // (for the point-based forms a shrunken direction needs the eye at the origin: center = eye + dir * 10^de is absorbed otherwise)
                    let iv = |rng: &mut Rng| Vector3::new(Q::int(rng.range(-6, 6) as i128), Q::int(rng.range(-6, 6) as i128), Q::int(rng.range(-6, 6) as i128));
                    // oblique: up neither parallel nor perpendicular to dir
                    let (dir, up) = loop { let (d0, u0) = (iv(rng), iv(rng)); let c = d0.cross(u0); if (c.x.n != 0 || c.y.n != 0 || c.z.n != 0) && d0.dot(u0).n != 0 { break (d0, u0); } };
                    let eye = if at && (de > 3 || de < 0) { Point3::new(q(0, 1), q(0, 1), q(0, 1)) } else { Point3::from_vec(iv(rng)) };
                    let mut a = vec![t(inner), t(form), Val::I(ue), Val::I(de)];
                    match inner {
                        "mat3_look_to" => { a.push(Val::V3(dir)); a.push(Val::V3(up)); }
                        "mat4_look_to" => { a.push(Val::P3(eye)); a.push(Val::V3(dir)); a.push(Val::V3(up)); }
                        "mat4_look_at" => { a.push(Val::P3(eye)); a.push(Val::P3(eye + dir)); a.push(Val::V3(up)); }
                        "rot_look_at" => { a.push(t(ty)); a.push(Val::V3(dir)); a.push(Val::V3(up)); }
                        _ => { a.push(t(ty)); a.push(Val::P3(eye)); a.push(Val::P3(eye + dir)); a.push(Val::V3(up)); }
                    }
                    // single precision only where squares of the scaled lengths stay inside its range
                    if ue.abs() <= 9 && de.abs() <= 9 { emit1s("look_mag_proj", a, F2, out, pid); } else { emit1("look_mag_proj", a, out, pid); }
                }
            }
        }
        _ => {}
    }
}

pub fn drive2(profile: &str, seed: u64, count: usize) -> Vec<String> {
    fn gen_none(_p: &Pools, _rng: &mut Rng, _pb: &mut PB) {}
    let gen: fn(&Pools, &mut Rng, &mut PB) = match profile {
        "C01" => gen_c01, "C05" => gen_c05, "C06" => gen_c06, "C07" => gen_c07, "C08" => gen_c08, "C09" => gen_c09, "C10" => gen_c10,
        "C11" => gen_c11, "C13" => gen_c13, "C14" => gen_c14, "C15" => gen_c15,
        "C16" => gen_c16, "C18" => gen_c18, "C19" => gen_c19, "C20" => gen_c20,
        "C02" | "C03" | "C04" | "C12" | "C17" => gen_none,     // the operator table drives these; only the sweeps below are added here
        _ => return Vec::new(),
    };
    let count = if gen as usize == gen_none as usize { 0 } else { count };
    let p = pools();
    let mut rng = Rng(seed.wrapping_mul(0x9E3779B97F4A7C15) ^ 0xBADC0DE ^ (profile.as_bytes()[2] as u64) << 8 ^ (profile.as_bytes()[1] as u64) << 16);
    let mut out = Vec::new();
    let mut pid = 500_000u64;
    let mut attempts = 0;
    while out.len() < count && attempts < count * 5 {
        attempts += 1;
        let mut pb = PB::new();
        gen(&p, &mut rng, &mut pb);
        pid += 1;
        let scs: &[&str] = match profile {
            "C16" => &["Q", "f64", "f32", "i32", "u8", "i64", "u16", "isize"],
            "C18" => &["Q", "f64", "f32"],
            "C19" => &["f64"],
            "C20" => &["f64", "f32"],
            _ => &["Q", "f64"],
        };
        if profile == "C19" || profile == "C20" { pb.fsafe = true; }
        if let Some(s) = pb.finish(pid, scs) { out.push(s); }
    }
    if profile == "C19" { cover_c19(&mut out, &mut pid, count >= 10000); }
    if profile == "C05" || profile == "C06" { cover_small_rot(&p, &mut rng, &mut out, &mut pid, false); }
    if profile == "C07" { cover_small_rot(&p, &mut rng, &mut out, &mut pid, true); }
    cover_proj(profile, &p, &mut rng, &mut out, &mut pid);
    out
}
