//! Hand-written program generators for the geometric families (rotations, transforms,
//! view/projection constructors, angles, interpolation, arcs) and the enumerated
//! families (views, approx, cast, serde).
pub fn drive2(_profile: &str, _seed: u64, _count: usize) -> Vec<String> {
    Vec::new()
}
