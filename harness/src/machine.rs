//! The register machine that steps programs through the real crate and records
//! one trace event per call.
use crate::sc::{Kind, Sc};
use crate::val::Val;
use serde_json::Value;
use std::panic::{catch_unwind, AssertUnwindSafe};

pub const NREG: usize = 20;

pub trait Exec: Sc {
    fn exec(op: &str, f: &str, a: &[Val<Self>]) -> Option<Val<Self>>;
}
macro_rules! chain { ($op:expr, $f:expr, $a:expr; $($g:path),+) => {{ $( if let Some(r) = $g($op, $f, $a) { return Some(r); } )+ None }} }
fn centroid<S: Sc + num_traits::NumCast + num_traits::Bounded>(op: &str, f: &str, a: &[Val<S>]) -> Option<Val<S>> { crate::exec_lin::exec_centroid(op, a).or_else(|| crate::exec_misc::exec_bounded(op, f, a)) }
impl Exec for crate::q::Q {
    fn exec(op: &str, f: &str, a: &[Val<Self>]) -> Option<Val<Self>> {
        chain!(op, f, a; crate::exec_lin::exec_num, crate::exec_misc::exec_views, crate::exec_lin::exec_signed, centroid, crate::exec_lin::exec_flt_lin, crate::exec_geo::exec_flt_geo, crate::exec_misc::exec_flt_misc)
    }
}
impl Exec for f64 {
    fn exec(op: &str, f: &str, a: &[Val<Self>]) -> Option<Val<Self>> {
        chain!(op, f, a; crate::exec_lin::exec_num, crate::exec_misc::exec_views, crate::exec_lin::exec_signed, centroid, crate::exec_lin::exec_flt_lin, crate::exec_geo::exec_flt_geo, crate::exec_misc::exec_flt_misc, crate::exec_proj::exec_proj, crate::exec_serde::exec_serde)
    }
}
impl Exec for f32 {
    fn exec(op: &str, f: &str, a: &[Val<Self>]) -> Option<Val<Self>> {
        chain!(op, f, a; crate::exec_lin::exec_num, crate::exec_misc::exec_views, crate::exec_lin::exec_signed, centroid, crate::exec_lin::exec_flt_lin, crate::exec_geo::exec_flt_geo, crate::exec_misc::exec_flt_misc, crate::exec_proj::exec_proj, crate::exec_serde::exec_serde)
    }
}
macro_rules! exec_signed { ($($t:ident),+) => { $(impl Exec for $t {
    fn exec(op: &str, f: &str, a: &[Val<Self>]) -> Option<Val<Self>> { chain!(op, f, a; crate::exec_lin::exec_num, crate::exec_misc::exec_views, crate::exec_lin::exec_signed, centroid) }
})+ } }
macro_rules! exec_unsigned { ($($t:ident),+) => { $(impl Exec for $t {
    fn exec(op: &str, f: &str, a: &[Val<Self>]) -> Option<Val<Self>> { chain!(op, f, a; crate::exec_lin::exec_num, crate::exec_misc::exec_views, centroid) }
})+ } }
exec_signed!(i8, i16, i32, i64, isize);
exec_unsigned!(u8, u16, u32, u64, usize);

pub enum Outcome<S: Sc> {
    Done(Val<S>),
    NotExecutable(String),
    Unsupported,
}

pub fn run_call<S: Exec>(op: &str, f: &str, args: &[Val<S>]) -> Outcome<S> {
    let r = catch_unwind(AssertUnwindSafe(|| S::exec(op, f, args)));
    match r {
        Ok(Some(v)) => Outcome::Done(v),
        Ok(None) => Outcome::Unsupported,
        Err(p) => {
            let msg = if let Some(s) = p.downcast_ref::<String>() { s.clone() } else if let Some(s) = p.downcast_ref::<&str>() { s.to_string() } else { String::new() };
            if msg.starts_with("Q:") { Outcome::NotExecutable(msg) }
            else if msg.starts_with("H:") { eprintln!("harness error: {}", msg); std::process::exit(2) }
            else { Outcome::Done(Val::Panic) }
        }
    }
}

fn has_surd(j: &Value) -> bool {
    match j {
        Value::Array(a) => {
            if a.len() == 3 && a.iter().all(|x| x.is_i64()) { return true; }
            a.iter().any(has_surd)
        }
        Value::Object(o) => o.get("c").map(has_surd).unwrap_or(false),
        _ => false,
    }
}
/// ops whose contract is written for square-root-valued arguments
const SURD_AWARE: &[&str] = &["euler_from_quat"];

pub struct Machine<S: Exec> {
    pub surd: Vec<bool>,
    pub regs: Vec<Val<S>>,
    pub pid: u64,
    pub out: Vec<String>,
    pub ncalls: usize,
    pub cut: Option<String>,
}
pub fn is_bad(enc: &str) -> bool { enc.contains("[0,0,0,0]") || enc.contains("[0,0,0,0,0]") }

impl<S: Exec> Machine<S> {
    pub fn new(pid: u64, regs: Vec<Val<S>>) -> Self {
        let mut m = Machine { surd: vec![false; NREG], regs, pid, out: Vec::new(), ncalls: 0, cut: None };
        while m.regs.len() < NREG { m.regs.push(Val::Nil); }
        let rs: Vec<String> = m.regs.iter().map(|r| r.enc()).collect();
        m.out.push(format!("{{\"ev\":\"reset\",\"pid\":{},\"sc\":\"{}\",\"regs\":[{}]}}", pid, S::NAME, rs.join(",")));
        m
    }
    /// returns false when the program must stop here
    pub fn call(&mut self, op: &str, f: &str, args: &[usize], dst: usize) -> bool {
        let av: Vec<Val<S>> = args.iter().map(|&i| self.regs[i].clone()).collect();
        if av.iter().any(|v| matches!(v, Val::Panic)) {
            self.cut = Some("panic-argument".into());
            return false;
        }
        if S::KIND == Kind::Float && args.iter().any(|&i| self.surd[i]) && !SURD_AWARE.contains(&op) {
            self.cut = Some("surd-argument".into());
            return false;
        }
        match run_call::<S>(op, f, &av) {
            Outcome::Done(v) => {
                let surd_ok = crate::sc::SURD_OPS.contains(&op)
                    || (crate::sc::SURD_QUAT_OPS.contains(&op) && matches!(v, Val::Q(_) | Val::DQ(_)));
                crate::sc::SURD_OK.with(|c| c.set(surd_ok));
                let enc = catch_unwind(AssertUnwindSafe(|| v.enc())).unwrap_or_else(|_| "{\"t\":\"Raw\",\"c\":[[0,0,0,0]]}".to_string());
                crate::sc::SURD_OK.with(|c| c.set(false));
                let a1: Vec<String> = args.iter().map(|i| (i + 1).to_string()).collect();
                self.out.push(format!(
                    "{{\"ev\":\"call\",\"pid\":{},\"sc\":\"{}\",\"op\":\"{}\",\"f\":\"{}\",\"a\":[{}],\"d\":{},\"res\":{}}}",
                    self.pid, S::NAME, op, f, a1.join(","), dst + 1, enc
                ));
                self.ncalls += 1;
                if is_bad(&enc) { self.cut = Some("unrepresentable result".into()); self.regs[dst] = v; return false; }
                // floats: continue from the exact value the model holds, so rounding does not accumulate
                if S::KIND == Kind::Float {
                    let j: Value = serde_json::from_str(&enc).unwrap();
                    self.surd[dst] = has_surd(&j["c"]);
                    self.regs[dst] = match catch_unwind(AssertUnwindSafe(|| Val::<S>::dec(&j))) { Ok(x) => x, Err(_) => v };
                } else {
                    self.regs[dst] = v;
                }
                true
            }
            Outcome::NotExecutable(m) => { self.cut = Some(m); false }
            Outcome::Unsupported => { self.cut = Some(format!("unsupported:{}:{}", op, f)); false }
        }
    }
}

/// Execute one JSON program at scalar S; returns the trace lines and the cut reason, if any.
pub fn run_program<S: Exec>(p: &Value) -> (Vec<String>, usize, Option<String>) {
    let pid = p["pid"].as_u64().unwrap_or(0);
    let regs: Vec<Val<S>> = match catch_unwind(AssertUnwindSafe(|| p["regs"].as_array().unwrap().iter().map(|j| Val::<S>::dec(j)).collect())) {
        Ok(r) => r,
        Err(_) => return (Vec::new(), 0, Some("undecodable registers at this scalar".into())),
    };
    // a program whose initial registers are not representable at this scalar type is not run at it
    if regs.iter().any(|r| is_bad(&r.enc())) { return (Vec::new(), 0, Some("unrepresentable-initial-register".into())); }
    let mut m = Machine::<S>::new(pid, regs);
    for c in p["calls"].as_array().unwrap() {
        let args: Vec<usize> = c["a"].as_array().unwrap().iter().map(|x| x.as_u64().unwrap() as usize - 1).collect();
        let ok = m.call(c["op"].as_str().unwrap(), c["f"].as_str().unwrap(), &args, c["d"].as_u64().unwrap() as usize - 1);
        if !ok { break; }
    }
    (m.out, m.ncalls, m.cut)
}
