//! 550 generated swizzle call sites (see build.rs)
use crate::val::Val;
include!(concat!(env!("OUT_DIR"), "/swizzle_gen.rs"));
