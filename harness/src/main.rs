#![allow(clippy::all)]
#![allow(unused_imports)]
extern crate cgmath;
mod ang;
mod driver;
mod driver2;
mod exec_geo;
mod exec_lin;
mod exec_cast;
mod exec_misc;
mod exec_proj;
mod exec_serde;
mod swizzle_gen;
mod exec_sleft;
mod machine;
mod q;
mod sc;
mod val;

use machine::run_program;
use serde_json::Value;
use std::io::{BufRead, Write};

fn arg(args: &[String], name: &str) -> Option<String> {
    args.iter().position(|a| a == name).and_then(|i| args.get(i + 1).cloned())
}

fn run_at(sc: &str, p: &Value) -> (Vec<String>, usize, Option<String>) {
    match sc {
        "Q" => run_program::<q::Q>(p),
        "f64" => run_program::<f64>(p),
        "f32" => run_program::<f32>(p),
        "i8" => run_program::<i8>(p),
        "i16" => run_program::<i16>(p),
        "i32" => run_program::<i32>(p),
        "i64" => run_program::<i64>(p),
        "isize" => run_program::<isize>(p),
        "u8" => run_program::<u8>(p),
        "u16" => run_program::<u16>(p),
        "u32" => run_program::<u32>(p),
        "u64" => run_program::<u64>(p),
        "usize" => run_program::<usize>(p),
        _ => { eprintln!("unknown scalar {}", sc); std::process::exit(2) }
    }
}

fn main() {
    std::panic::set_hook(Box::new(|_| {}));
    let args: Vec<String> = std::env::args().collect();
    let cmd = args.get(1).map(|s| s.as_str()).unwrap_or("");
    match cmd {
        // exec --in programs.ndjson --out trace.ndjson [--stats stats.json]
        "exec" => {
            let inp = arg(&args, "--in").expect("--in");
            let out = arg(&args, "--out").expect("--out");
            let rd = std::io::BufReader::new(std::fs::File::open(&inp).expect("open programs"));
            let mut w = std::io::BufWriter::new(std::fs::File::create(&out).expect("create trace"));
            let (mut nprog, mut ncalls, mut ncut) = (0usize, 0usize, 0usize);
            let mut cuts: std::collections::BTreeMap<String, usize> = Default::default();
            for line in rd.lines() {
                let line = line.unwrap();
                if line.trim().is_empty() { continue; }
                let p: Value = serde_json::from_str(&line).expect("program json");
                let scs: Vec<String> = match &p["sc"] {
                    Value::String(s) => vec![s.clone()],
                    Value::Array(a) => a.iter().map(|x| x.as_str().unwrap().to_string()).collect(),
                    _ => vec!["Q".into()],
                };
                for sc in scs {
                    let (lines, n, cut) = run_at(&sc, &p);
                    if n == 0 { if let Some(c) = cut { *cuts.entry(short(&c)).or_insert(0) += 1; ncut += 1; } continue; }
                    for l in lines { writeln!(w, "{}", l).unwrap(); }
                    nprog += 1; ncalls += n;
                    if let Some(c) = cut { *cuts.entry(short(&c)).or_insert(0) += 1; ncut += 1; }
                }
            }
            w.flush().unwrap();
            let cs: Vec<String> = cuts.iter().map(|(k, v)| format!("\"{}\":{}", k.replace('"', "'"), v)).collect();
            println!("{{\"programs\":{},\"calls\":{},\"cut\":{},\"cuts\":{{{}}}}}", nprog, ncalls, ncut, cs.join(","));
        }
        // drive --profile C01 --seed N --count M --out programs.ndjson
        "drive" => {
            let profile = arg(&args, "--profile").expect("--profile");
            let seed: u64 = arg(&args, "--seed").and_then(|s| s.parse().ok()).unwrap_or(1);
            let count: usize = arg(&args, "--count").and_then(|s| s.parse().ok()).unwrap_or(100);
            let out = arg(&args, "--out").expect("--out");
            let mut w = std::io::BufWriter::new(std::fs::File::create(&out).expect("create programs"));
            let progs = driver::drive(&profile, seed, count);
            for p in &progs { writeln!(w, "{}", p).unwrap(); }
            w.flush().unwrap();
            println!("{{\"programs\":{}}}", progs.len());
        }
        _ => {
            eprintln!("usage: cgv exec|drive ...");
            std::process::exit(2);
        }
    }
}
fn short(s: &str) -> String { s.split(|c| c == ' ' || c == '{').next().unwrap_or("").to_string() }
