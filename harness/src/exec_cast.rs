//! C19: numeric cast of compound values.  Components are named by tokens so that the
//! extremes and non-finite values of every source type can be used (they do not fit the
//! model's 32-bit rationals); the model sees the tokens and the verdict structure.
use crate::sc::Sc;
use crate::val::Val;
use cgmath::*;
use num_traits::NumCast;

pub trait Tok: Copy + NumCast + PartialEq + 'static {
    fn tok(t: &str) -> Self;
    fn same(a: Self, b: Self) -> bool { a == b }
}
macro_rules! int_tok { ($($t:ident),+) => { $(impl Tok for $t {
    fn tok(t: &str) -> $t { match t {
        "max" => $t::MAX, "min" => $t::MIN, "zero" => 0, "one" => 1, "two" => 2, "mid" => $t::MAX / 2, "seven" => 7, "hundred" => 100,
        "neg1" => (0 as $t).wrapping_sub(1), "big" => $t::MAX - 1, "p200" => 200u64 as $t, "p70000" => 70000u64 as $t,
        // values on which a conversion routed through an intermediate type (f64, f32, i64) differs from the direct one:
        // just above an f32 rounding midpoint that f64 cannot see / not representable in f32 / in f64
        "dr1" => if $t::BITS >= 64 { ((1u64 << 60) + (1u64 << 36) + 1) as $t } else if $t::BITS >= 32 { ((1u64 << 24) + 1) as $t } else { 99 },
        "dr2" => if $t::BITS >= 64 { ((1u64 << 53) + 1) as $t } else if $t::BITS >= 32 { ((1u64 << 30) + (1u64 << 6) + 1) as $t } else { 101 },
        "ndr1" => (0 as $t).wrapping_sub(if $t::BITS >= 64 { ((1u64 << 60) + (1u64 << 36) + 1) as $t } else if $t::BITS >= 32 { ((1u64 << 24) + 1) as $t } else { 99 }),
        _ => 3 } }
})+ } }
int_tok!(i8, i16, i32, i64, isize, u8, u16, u32, u64, usize);
macro_rules! flt_tok { ($($t:ident),+) => { $(impl Tok for $t {
    fn tok(t: &str) -> $t { match t {
        "max" => $t::MAX, "min" => $t::MIN, "zero" => 0.0, "one" => 1.0, "two" => 2.0, "mid" => 1.0e9, "seven" => 7.0, "hundred" => 100.0,
        "neg1" => -1.0, "big" => 3.0e38, "p200" => 200.0, "p70000" => 70000.0, "nan" => $t::NAN, "inf" => $t::INFINITY, "ninf" => $t::NEG_INFINITY,
        "half" => 0.5, "nhalf" => -0.5, "huge" => 1.0e19,
        "dr1" => (1.0f64 + 5.9604644775390625e-8 + 8.881784197001252e-16) as $t, "dr2" => (1.0f64 + 9.094947017729282e-13) as $t, "ndr1" => -(1.0f64 + 5.9604644775390625e-8 + 8.881784197001252e-16) as $t,
        "frac" => 2.75, "nfrac" => -2.75, "tiny" => 1.0e-40, "edge" => 2147483648.0, "nedge" => -2147483649.0, "u8edge" => 255.5, "negfrac" => -0.75,
        _ => 3.0 } }
    fn same(a: $t, b: $t) -> bool { a == b || (a.is_nan() && b.is_nan()) }
})+ } }
flt_tok!(f32, f64);

fn bools<S: Sc>(bs: Vec<bool>) -> Val<S> { Val::Tup(bs.into_iter().map(Val::B).collect()) }

fn cast_typed<Src: Tok, Dst: Tok + BaseFloatOrNot, S: Sc>(ty: &str, toks: &[&str]) -> Option<Val<S>> {
    let c: Vec<Src> = toks.iter().map(|t| Src::tok(t)).collect();
    let sc: Vec<Option<Dst>> = c.iter().map(|x| <Dst as NumCast>::from(*x)).collect();
    // compound result, flattened in canonical order
    let r: Option<Vec<Dst>> = match (ty, c.len()) {
        ("Vector1", 1) => Vector1::new(c[0]).cast::<Dst>().map(|v| vec![v.x]),
        ("Vector2", 2) => Vector2::new(c[0], c[1]).cast::<Dst>().map(|v| vec![v.x, v.y]),
        ("Vector3", 3) => Vector3::new(c[0], c[1], c[2]).cast::<Dst>().map(|v| vec![v.x, v.y, v.z]),
        ("Vector4", 4) => Vector4::new(c[0], c[1], c[2], c[3]).cast::<Dst>().map(|v| vec![v.x, v.y, v.z, v.w]),
        ("Point1", 1) => Point1::new(c[0]).cast::<Dst>().map(|v| vec![v.x]),
        ("Point2", 2) => Point2::new(c[0], c[1]).cast::<Dst>().map(|v| vec![v.x, v.y]),
        ("Point3", 3) => Point3::new(c[0], c[1], c[2]).cast::<Dst>().map(|v| vec![v.x, v.y, v.z]),
        ("Matrix2", 4) => Matrix2::new(c[0], c[1], c[2], c[3]).cast::<Dst>().map(|m| vec![m.x.x, m.x.y, m.y.x, m.y.y]),
        ("Matrix3", 9) => Matrix3::new(c[0], c[1], c[2], c[3], c[4], c[5], c[6], c[7], c[8]).cast::<Dst>()
            .map(|m| vec![m.x.x, m.x.y, m.x.z, m.y.x, m.y.y, m.y.z, m.z.x, m.z.y, m.z.z]),
        ("Matrix4", 16) => Matrix4::new(c[0], c[1], c[2], c[3], c[4], c[5], c[6], c[7], c[8], c[9], c[10], c[11], c[12], c[13], c[14], c[15]).cast::<Dst>()
            .map(|m| vec![m.x.x, m.x.y, m.x.z, m.x.w, m.y.x, m.y.y, m.y.z, m.y.w, m.z.x, m.z.y, m.z.z, m.z.w, m.w.x, m.w.y, m.w.z, m.w.w]),
        // Quaternion::cast needs a float target; canonical order x, y, z, s; tokens are given in that order
        ("Quaternion", 4) => Dst::quat_cast(Quaternion::new(c[3], c[0], c[1], c[2])),
        _ => return None,
    };
    let some: Vec<bool> = sc.iter().map(|x| x.is_some()).collect();
    let eq: Vec<bool> = match &r {
        Some(v) => v.iter().zip(sc.iter()).map(|(a, b)| match b { Some(b) => Dst::same(*a, *b), None => false }).collect(),
        None => Vec::new(),
    };
    Some(Val::Tup(vec![Val::B(r.is_some()), bools(some), bools(eq)]))
}
pub trait BaseFloatOrNot: Sized {
    fn quat_cast<Src: Tok>(_q: Quaternion<Src>) -> Option<Vec<Self>> { panic!("H:quaternion cast needs a float target") }
}
macro_rules! nofl { ($($t:ident),+) => { $(impl BaseFloatOrNot for $t {})+ } }
nofl!(i8, i16, i32, i64, isize, u8, u16, u32, u64, usize);
impl BaseFloatOrNot for f32 { fn quat_cast<Src: Tok>(q: Quaternion<Src>) -> Option<Vec<f32>> { q.cast::<f32>().map(|r| vec![r.v.x, r.v.y, r.v.z, r.s]) } }
impl BaseFloatOrNot for f64 { fn quat_cast<Src: Tok>(q: Quaternion<Src>) -> Option<Vec<f64>> { q.cast::<f64>().map(|r| vec![r.v.x, r.v.y, r.v.z, r.s]) } }

macro_rules! dispatch_dst {
    ($src:ident, $dst:expr, $ty:expr, $toks:expr, $($d:ident),+) => {
        match $dst { $( stringify!($d) => cast_typed::<$src, $d, S>($ty, $toks), )+ _ => None }
    };
}
macro_rules! dispatch_src {
    ($srcname:expr, $dst:expr, $ty:expr, $toks:expr, $($s:ident),+) => {
        match $srcname { $( stringify!($s) => dispatch_dst!($s, $dst, $ty, $toks, i8, i16, i32, i64, isize, u8, u16, u32, u64, usize, f32, f64), )+ _ => None }
    };
}
/// cast(T type, T src scalar, T dst scalar, T token...)
pub fn cast<S: Sc>(a: &[Val<S>]) -> Option<Val<S>> {
    let mut names: Vec<&str> = Vec::new();
    for x in a { if let Val::T(s) = x { names.push(s.as_str()) } else { return None } }
    if names.len() < 4 { return None; }
    let (ty, src, dst) = (names[0], names[1], names[2]);
    let toks = &names[3..];
    dispatch_src!(src, dst, ty, toks, i8, i16, i32, i64, isize, u8, u16, u32, u64, usize, f32, f64)
}
