//! Scalar-on-the-left operators: cgmath implements these per primitive type
//! (`impl Mul<Vector3<i16>> for i16` ...), so each is its own compiled call site.
use crate::val::Val;

macro_rules! sl2 {
    ($f:expr, $s:expr, $x:expr, $op:tt) => {
        match $f {
            "vv" => $s $op $x,
            "vr" => $s $op &$x,
            _ => return None,
        }
    };
}
macro_rules! sleft_impl {
    ($fname:ident, $t:ident) => {
        pub fn $fname(op: &str, f: &str, s: $t, x: &Val<$t>) -> Option<Val<$t>> {
            use Val::*;
            Some(match (op, x) {
                ("s_mul", V1(v)) => V1(sl2!(f, s, *v, *)), ("s_div", V1(v)) => V1(sl2!(f, s, *v, /)), ("s_rem", V1(v)) => V1(sl2!(f, s, *v, %)),
                ("s_mul", V2(v)) => V2(sl2!(f, s, *v, *)), ("s_div", V2(v)) => V2(sl2!(f, s, *v, /)), ("s_rem", V2(v)) => V2(sl2!(f, s, *v, %)),
                ("s_mul", V3(v)) => V3(sl2!(f, s, *v, *)), ("s_div", V3(v)) => V3(sl2!(f, s, *v, /)), ("s_rem", V3(v)) => V3(sl2!(f, s, *v, %)),
                ("s_mul", V4(v)) => V4(sl2!(f, s, *v, *)), ("s_div", V4(v)) => V4(sl2!(f, s, *v, /)), ("s_rem", V4(v)) => V4(sl2!(f, s, *v, %)),
                ("s_mul", P1(v)) => P1(sl2!(f, s, *v, *)), ("s_div", P1(v)) => P1(sl2!(f, s, *v, /)), ("s_rem", P1(v)) => P1(sl2!(f, s, *v, %)),
                ("s_mul", P2(v)) => P2(sl2!(f, s, *v, *)), ("s_div", P2(v)) => P2(sl2!(f, s, *v, /)), ("s_rem", P2(v)) => P2(sl2!(f, s, *v, %)),
                ("s_mul", P3(v)) => P3(sl2!(f, s, *v, *)), ("s_div", P3(v)) => P3(sl2!(f, s, *v, /)), ("s_rem", P3(v)) => P3(sl2!(f, s, *v, %)),
                ("s_mul", M2(v)) => M2(sl2!(f, s, *v, *)), ("s_div", M2(v)) => M2(sl2!(f, s, *v, /)), ("s_rem", M2(v)) => M2(sl2!(f, s, *v, %)),
                ("s_mul", M3(v)) => M3(sl2!(f, s, *v, *)), ("s_div", M3(v)) => M3(sl2!(f, s, *v, /)), ("s_rem", M3(v)) => M3(sl2!(f, s, *v, %)),
                ("s_mul", M4(v)) => M4(sl2!(f, s, *v, *)), ("s_div", M4(v)) => M4(sl2!(f, s, *v, /)), ("s_rem", M4(v)) => M4(sl2!(f, s, *v, %)),
                _ => return sleft_quat::<$t>(op, f, s, x),
            })
        }
    };
}
// quaternions: only f32 and f64, only * and /
pub trait QuatLeft: crate::sc::Sc {
    fn ql(_op: &str, _f: &str, _s: Self, _x: &Val<Self>) -> Option<Val<Self>> { None }
}
macro_rules! noq { ($($t:ident),+) => { $(impl QuatLeft for $t {})+ } }
noq!(i8, i16, i32, i64, isize, u8, u16, u32, u64, usize);
macro_rules! yesq {
    ($t:ident) => {
        impl QuatLeft for $t {
            fn ql(op: &str, f: &str, s: $t, x: &Val<$t>) -> Option<Val<$t>> {
                use Val::*;
                Some(match (op, x) {
                    ("s_mul", Q(q)) => Q(sl2!(f, s, *q, *)),
                    ("s_div", Q(q)) => Q(sl2!(f, s, *q, /)),
                    _ => return None,
                })
            }
        }
    };
}
yesq!(f32);
yesq!(f64);
fn sleft_quat<T: QuatLeft>(op: &str, f: &str, s: T, x: &Val<T>) -> Option<Val<T>> { T::ql(op, f, s, x) }

sleft_impl!(sleft_f64, f64);
sleft_impl!(sleft_f32, f32);
sleft_impl!(sleft_i8, i8);
sleft_impl!(sleft_i16, i16);
sleft_impl!(sleft_i32, i32);
sleft_impl!(sleft_i64, i64);
sleft_impl!(sleft_isize, isize);
sleft_impl!(sleft_u8, u8);
sleft_impl!(sleft_u16, u16);
sleft_impl!(sleft_u32, u32);
sleft_impl!(sleft_u64, u64);
sleft_impl!(sleft_usize, usize);
