//! Scalar kinds the real crate is executed at, and their exact JSON projection.
//!
//! A scalar is logged as `[n,d]` (exact rational; `[±1,0]` infinities, `[0,0]` NaN),
//! `[sg,n,d]` (sg*sqrt(n/d), floats only) or `[0,0,0,0]` (not representable: too
//! large for the 32-bit model or, for floats, not within the snap radius of any
//! small rational or square root of one).  Snapping is a projection: it contains
//! no knowledge of the expected answer.
use crate::ang::{self, Sym, Unit};
use crate::q::Q;
use cgmath::BaseNum;
use serde_json::Value;

pub const BIG: i128 = 1 << 30;
pub const BAD: &str = "[0,0,0,0]";

#[derive(Copy, Clone, PartialEq, Eq, Debug)]
pub enum Kind {
    Exact,
    Float,
    Signed,
    Unsigned,
}

pub trait Sc: BaseNum + num_traits::NumCast + num_traits::Bounded + 'static {
    const NAME: &'static str;
    const KIND: Kind;
    fn enc(self) -> String;
    fn dec(j: &Value) -> Self;
    fn enc_ang(self, _u: Unit) -> String {
        "[0,0,0,0,0]".into()
    }
    fn dec_ang(_s: Sym, _u: Unit) -> Self {
        panic!("H:angles need a float scalar")
    }
    fn from_i(i: i64) -> Self;
    /// scalar-on-the-left operator impls exist only for the twelve primitives
    fn sleft(_op: &str, _f: &str, _s: Self, _x: &crate::val::Val<Self>) -> Option<crate::val::Val<Self>> {
        None
    }
    fn is_field() -> bool {
        matches!(Self::KIND, Kind::Exact | Kind::Float)
    }
}

fn jint(j: &Value) -> i128 {
    j.as_i64().unwrap_or_else(|| panic!("H:bad int {}", j)) as i128
}
pub fn dec_rat(j: &Value) -> (i128, i128, i128) {
    // returns (sg, n, d): sg = 0 means plain rational n/d, else sg*sqrt(n/d)
    let a = j.as_array().unwrap_or_else(|| panic!("H:bad scalar {}", j));
    match a.len() {
        2 => (0, jint(&a[0]), jint(&a[1])),
        3 => (jint(&a[0]), jint(&a[1]), jint(&a[2])),
        _ => panic!("H:bad scalar {}", j),
    }
}
pub fn enc_sym(s: Sym) -> String {
    format!("[{},{},{},{}]", s.an, s.ad, s.k1, s.k2)
}
pub fn dec_sym(j: &Value) -> Sym {
    let a = j.as_array().unwrap();
    Sym { an: a[0].as_i64().unwrap(), ad: a[1].as_i64().unwrap(), k1: a[2].as_i64().unwrap(), k2: a[3].as_i64().unwrap() }
}

impl Sc for Q {
    const NAME: &'static str = "Q";
    const KIND: Kind = Kind::Exact;
    fn enc(self) -> String {
        if self.d == 0 {
            return format!("[{},0]", self.n);
        }
        if self.n.abs() >= BIG || self.d >= BIG {
            return BAD.into();
        }
        format!("[{},{}]", self.n, self.d)
    }
    fn dec(j: &Value) -> Q {
        let (sg, n, d) = dec_rat(j);
        if sg == 0 {
            Q::new(n, d)
        } else {
            use num_traits::Float;
            Q::int(sg) * Q::new(n, d).sqrt()
        }
    }
    fn enc_ang(self, u: Unit) -> String {
        match ang::q_recognise(self, u) {
            Some(s) => enc_sym(s),
            None => "[0,0,0,0,0]".into(),
        }
    }
    fn dec_ang(s: Sym, u: Unit) -> Q {
        ang::q_label(s, u)
    }
    fn from_i(i: i64) -> Q {
        Q::int(i as i128)
    }
    // Q has no scalar-on-the-left impls in cgmath; this emulation only lets the *driver*
    // predict magnitudes while generating programs that are then run at f32/f64.
    fn sleft(op: &str, _f: &str, s: Q, x: &crate::val::Val<Q>) -> Option<crate::val::Val<Q>> {
        match op {
            "s_mul" => x.map_scalars(&|c| s * c),
            "s_div" => x.map_scalars(&|c| s / c),
            "s_rem" => x.map_scalars(&|c| s % c),
            _ => None,
        }
    }
}

thread_local! {
    /// set by the machine around the encoding of a result: may this op's exact result be irrational?
    pub static SURD_OK: std::cell::Cell<bool> = std::cell::Cell::new(false);
}
/// ops whose exact result may be a square root even for rational inputs (a property of the op, not of the expected value)
pub const SURD_OPS: &[&str] = &["magnitude", "normalize", "normalize_to", "distance", "nlerp", "slerp"];
/// ... and these only when the result is a quaternion (a matrix built from a normalised quaternion is rational again)
pub const SURD_QUAT_OPS: &[&str] = &["between_vectors", "from_arc", "quat_from_mat3", "quat_from_basis3", "rot_look_at", "tf_look_at"];
fn enc_float(x: f64, maxden: i64, tol: f64) -> String {
    if x.is_nan() {
        return "[0,0]".into();
    }
    if x.is_infinite() {
        return if x > 0.0 { "[1,0]".into() } else { "[-1,0]".into() };
    }
    // Results of rational-only ops snap to a rational.  For ops that may return square roots: a small-denominator
    // rational first, then the signed square root of a rational, then any rational (a generic irrational has
    // accidental rational approximations with denominators near `maxden`, hence the order and the tight radius).
    if !SURD_OK.with(|c| c.get()) {
        if let Some((p, q)) = ang::snap_rat(x, maxden, tol) { return format!("[{},{}]", p, q); }
    } else {
        let t2 = tol / 50.0;
        if let Some((p, q)) = ang::snap_rat(x, 2000.min(maxden), t2) { return format!("[{},{}]", p, q); }
        if let Some((n, d)) = ang::snap_rat(x * x, maxden, 2.0 * t2) { if n > 0 { return format!("[{},{},{}]", if x < 0.0 { -1 } else { 1 }, n, d); } }
        if let Some((p, q)) = ang::snap_rat(x, maxden, t2) { return format!("[{},{}]", p, q); }
    }
    // tiny values: the reciprocal may be a small rational (1e-7 = 1/10000000)
    if x.abs() < 1.0 && x != 0.0 {
        if let Some((p, q)) = ang::snap_rat(1.0 / x, 1000, tol) {
            if p != 0 { let (n, d) = if p < 0 { (-q, -p) } else { (q, p) }; return format!("[{},{}]", n, d); }
        }
    }
    BAD.into()
}
fn dec_float(j: &Value) -> f64 {
    let (sg, n, d) = dec_rat(j);
    if d == 0 {
        return if n > 0 { f64::INFINITY } else if n < 0 { f64::NEG_INFINITY } else { f64::NAN };
    }
    if sg == 0 {
        n as f64 / d as f64
    } else {
        sg as f64 * (n as f64 / d as f64).sqrt()
    }
}
pub const F64_TOL: f64 = 1e-11;
pub const F64_DEN: i64 = 100_000;
pub const F32_TOL: f64 = 4e-6;
pub const F32_DEN: i64 = 256;

impl Sc for f64 {
    const NAME: &'static str = "f64";
    const KIND: Kind = Kind::Float;
    fn enc(self) -> String {
        enc_float(self, F64_DEN, F64_TOL)
    }
    fn dec(j: &Value) -> f64 {
        dec_float(j)
    }
    fn enc_ang(self, u: Unit) -> String {
        match ang::f_recognise(self, u, 1e-10) {
            Some(s) => enc_sym(s),
            None => "[0,0,0,0,0]".into(),
        }
    }
    fn dec_ang(s: Sym, u: Unit) -> f64 {
        ang::sym_value(s, u)
    }
    fn from_i(i: i64) -> f64 {
        i as f64
    }
    fn sleft(op: &str, f: &str, s: f64, x: &crate::val::Val<f64>) -> Option<crate::val::Val<f64>> {
        crate::exec_sleft::sleft_f64(op, f, s, x)
    }
}
impl Sc for f32 {
    const NAME: &'static str = "f32";
    const KIND: Kind = Kind::Float;
    fn enc(self) -> String {
        enc_float(self as f64, F32_DEN, F32_TOL)
    }
    fn dec(j: &Value) -> f32 {
        dec_float(j) as f32
    }
    fn enc_ang(self, u: Unit) -> String {
        match ang::f_recognise(self as f64, u, 2e-6) {
            Some(s) => enc_sym(s),
            None => "[0,0,0,0,0]".into(),
        }
    }
    fn dec_ang(s: Sym, u: Unit) -> f32 {
        ang::sym_value(s, u) as f32
    }
    fn from_i(i: i64) -> f32 {
        i as f32
    }
    fn sleft(op: &str, f: &str, s: f32, x: &crate::val::Val<f32>) -> Option<crate::val::Val<f32>> {
        crate::exec_sleft::sleft_f32(op, f, s, x)
    }
}

macro_rules! int_sc {
    ($t:ident, $kind:expr, $sl:ident) => {
        impl Sc for $t {
            const NAME: &'static str = stringify!($t);
            const KIND: Kind = $kind;
            fn enc(self) -> String {
                let v = self as i128;
                if v.abs() >= BIG {
                    return BAD.into();
                }
                format!("[{},1]", v)
            }
            fn dec(j: &Value) -> $t {
                let (sg, n, d) = dec_rat(j);
                if sg != 0 || d != 1 {
                    panic!("H:non-integer for integer scalar {}", j);
                }
                n as $t
            }
            fn from_i(i: i64) -> $t {
                i as $t
            }
            fn sleft(op: &str, f: &str, s: $t, x: &crate::val::Val<$t>) -> Option<crate::val::Val<$t>> {
                crate::exec_sleft::$sl(op, f, s, x)
            }
        }
    };
}
int_sc!(i8, Kind::Signed, sleft_i8);
int_sc!(i16, Kind::Signed, sleft_i16);
int_sc!(i32, Kind::Signed, sleft_i32);
int_sc!(i64, Kind::Signed, sleft_i64);
int_sc!(isize, Kind::Signed, sleft_isize);
int_sc!(u8, Kind::Unsigned, sleft_u8);
int_sc!(u16, Kind::Unsigned, sleft_u16);
int_sc!(u32, Kind::Unsigned, sleft_u32);
int_sc!(u64, Kind::Unsigned, sleft_u64);
int_sc!(usize, Kind::Unsigned, sleft_usize);
