//! C20: serde.  The serialized structure is logged as a tree whose leaves are the
//! canonical position of the component they carry (components are pairwise distinct),
//! so the model checks field names and order without seeing floating-point text.
use crate::exec_misc::comps;
use crate::sc::Sc;
use crate::val::*;
use cgmath::*;
use serde::de::DeserializeOwned;
use serde::Serialize;
use serde_json::Value;

pub trait Bits: Copy { fn bits(self) -> u64; fn special(t: &str) -> Self; }
impl Bits for f64 { fn bits(self) -> u64 { self.to_bits() }
    fn special(t: &str) -> f64 { match t { "nzero" => -0.0, "sub" => f64::from_bits(1), "nsub" => -f64::from_bits(3), "max" => f64::MAX, "min" => f64::MIN,
        "tiny" => f64::MIN_POSITIVE, "third" => 1.0 / 3.0, "pi" => std::f64::consts::PI, "eps" => f64::EPSILON, "one" => 1.0, "big" => 1.0e300, _ => 0.1 } } }
impl Bits for f32 { fn bits(self) -> u64 { self.to_bits() as u64 }
    fn special(t: &str) -> f32 { match t { "nzero" => -0.0, "sub" => f32::from_bits(1), "nsub" => -f32::from_bits(3), "max" => f32::MAX, "min" => f32::MIN,
        "tiny" => f32::MIN_POSITIVE, "third" => 1.0 / 3.0, "pi" => std::f32::consts::PI, "eps" => f32::EPSILON, "one" => 1.0, "big" => 1.0e30, _ => 0.1 } } }
impl Bits for i32 { fn bits(self) -> u64 { self as u32 as u64 }
    fn special(t: &str) -> i32 { match t { "max" => i32::MAX, "min" => i32::MIN, "one" => 1, "nzero" => 0, _ => 7 } } }

fn tree<S: Sc>(j: &Value, leaves: &[(u64, i64)], bits_of: &dyn Fn(&Value) -> Option<u64>) -> Val<S> {
    match j {
        Value::Object(o) => { let mut v = vec![Val::T("obj".into())]; for (k, x) in o { v.push(Val::T(k.clone())); v.push(tree(x, leaves, bits_of)); } Val::Tup(v) }
        Value::Array(a) => { let mut v = vec![Val::T("arr".into())]; for x in a { v.push(tree(x, leaves, bits_of)); } Val::Tup(v) }
        _ => { let b = bits_of(j); match b.and_then(|b| leaves.iter().find(|l| l.0 == b)) { Some(l) => Val::I(l.1), None => Val::I(0) } }
    }
}

macro_rules! with_typed {
    ($v:expr, $x:ident, $body:expr) => {
        match $v {
            Val::V1($x) => $body, Val::V2($x) => $body, Val::V3($x) => $body, Val::V4($x) => $body,
            Val::P1($x) => $body, Val::P2($x) => $body, Val::P3($x) => $body,
            Val::M2($x) => $body, Val::M3($x) => $body, Val::M4($x) => $body, Val::Q($x) => $body,
            Val::ARad($x) => $body, Val::ADeg($x) => $body, Val::B2($x) => $body, Val::B3($x) => $body,
            Val::ERad($x) => $body, Val::EDeg($x) => $body, Val::DQ($x) => $body, Val::D3($x) => $body, Val::D2($x) => $body,
            Val::POrtho($x) => $body, Val::PPersp($x) => $body, Val::PFov($x) => $body, Val::Planar($x) => $body,
            _ => return None,
        }
    };
}
fn all_comps<S: Sc>(v: &Val<S>) -> Option<Vec<S>> {
    Some(match v {
        Val::POrtho(o) => vec![o.left, o.right, o.bottom, o.top, o.near, o.far],
        Val::PPersp(o) => vec![o.left, o.right, o.bottom, o.top, o.near, o.far],
        Val::PFov(o) => vec![o.fovy.0, o.aspect, o.near, o.far],
        Val::Planar(o) => vec![o.fovy.0, o.aspect, o.height, o.near, o.far],
        _ => comps(v)?,
    })
}
/// rebuild a value of the same type from components (specials for the bit-exactness clause)
fn rebuild<S: Sc>(v: &Val<S>, c: &[S]) -> Option<Val<S>> {
    use Val::*;
    Some(match v {
        V1(_) => V1(Vector1::new(c[0])), V2(_) => V2(Vector2::new(c[0], c[1])), V3(_) => V3(Vector3::new(c[0], c[1], c[2])), V4(_) => V4(Vector4::new(c[0], c[1], c[2], c[3])),
        P1(_) => P1(Point1::new(c[0])), P2(_) => P2(Point2::new(c[0], c[1])), P3(_) => P3(Point3::new(c[0], c[1], c[2])),
        M2(_) => M2(Matrix2::new(c[0], c[1], c[2], c[3])),
        M3(_) => M3(Matrix3::new(c[0], c[1], c[2], c[3], c[4], c[5], c[6], c[7], c[8])),
        M4(_) => M4(Matrix4::new(c[0], c[1], c[2], c[3], c[4], c[5], c[6], c[7], c[8], c[9], c[10], c[11], c[12], c[13], c[14], c[15])),
        Q(_) => Q(Quaternion::new(c[3], c[0], c[1], c[2])),
        ARad(_) => ARad(Rad(c[0])), ADeg(_) => ADeg(Deg(c[0])),
        B2(_) => B2(basis2_from(Matrix2::new(c[0], c[1], c[2], c[3]))),
        B3(_) => B3(basis3_from(Matrix3::new(c[0], c[1], c[2], c[3], c[4], c[5], c[6], c[7], c[8]))),
        ERad(_) => ERad(Euler::new(Rad(c[0]), Rad(c[1]), Rad(c[2]))), EDeg(_) => EDeg(Euler::new(Deg(c[0]), Deg(c[1]), Deg(c[2]))),
        DQ(_) => DQ(Decomposed { scale: c[0], rot: Quaternion::new(c[4], c[1], c[2], c[3]), disp: Vector3::new(c[5], c[6], c[7]) }),
        D3(_) => D3(Decomposed { scale: c[0], rot: basis3_from(Matrix3::new(c[1], c[2], c[3], c[4], c[5], c[6], c[7], c[8], c[9])), disp: Vector3::new(c[10], c[11], c[12]) }),
        D2(_) => D2(Decomposed { scale: c[0], rot: basis2_from(Matrix2::new(c[1], c[2], c[3], c[4])), disp: Vector2::new(c[5], c[6]) }),
        POrtho(_) => POrtho(Ortho { left: c[0], right: c[1], bottom: c[2], top: c[3], near: c[4], far: c[5] }),
        PPersp(_) => PPersp(Perspective { left: c[0], right: c[1], bottom: c[2], top: c[3], near: c[4], far: c[5] }),
        PFov(_) => PFov(PerspectiveFov { fovy: Rad(c[0]), aspect: c[1], near: c[2], far: c[3] }),
        Planar(_) => Planar(PlanarFov { fovy: Rad(c[0]), aspect: c[1], height: c[2], near: c[3], far: c[4] }),
        _ => return None,
    })
}
fn roundtrip<T: Serialize + DeserializeOwned>(x: &T) -> Option<(Value, Option<T>)> {
    let j = serde_json::to_value(x).ok()?;
    let back: Option<T> = serde_json::from_value(j.clone()).ok();
    Some((j, back))
}

pub fn exec_serde<S: Sc + Bits + Serialize + DeserializeOwned>(op: &str, f: &str, a: &[Val<S>]) -> Option<Val<S>> {
    let num_bits = |j: &Value| -> Option<u64> {
        // the number as this scalar type would read it back
        let s: Option<S> = serde_json::from_value(j.clone()).ok();
        s.map(|x| x.bits())
    };
    match (op, a) {
        // serde_shape(X): tree of field names, leaves = canonical positions; and the value read back, compared bit for bit
        ("serde_shape", [x]) => {
            let c = all_comps(x)?;
            let leaves: Vec<(u64, i64)> = c.iter().enumerate().map(|(i, s)| (s.bits(), i as i64 + 1)).collect();
            let (j, same) = with_typed!(x, t, { let (j, back) = roundtrip(t)?; let same = match back { Some(b) => {
                let bv = rebuild_from(x, &b)?; all_comps(&bv)?.iter().zip(c.iter()).all(|(p, q)| p.bits() == q.bits()) } None => false }; (j, same) });
            Some(Val::Tup(vec![tree(&j, &leaves, &num_bits), Val::B(same)]))
        }
        // serde_special(X, T token...): same type as X with special component values; round trip must be bit exact
        ("serde_special", [x, rest @ ..]) => {
            let mut c: Vec<S> = Vec::new();
            for r in rest { if let Val::T(tk) = r { c.push(S::special(tk)) } else { return None } }
            let n = all_comps(x)?.len();
            if c.len() != n { return None; }
            let y = rebuild(x, &c)?;
            let same = with_typed!(&y, t, { let (_j, back) = roundtrip(t)?; match back { Some(b) => {
                let bv = rebuild_from(&y, &b)?; all_comps(&bv)?.iter().zip(c.iter()).all(|(p, q)| p.bits() == q.bits()) } None => false } });
            let same_text = if f == "text" { with_typed!(&y, t, { let s = serde_json::to_string(t).ok()?; s.len() > 0 }) } else { true };
            Some(Val::Tup(vec![Val::B(same && same_text)]))
        }
        // serde_dec_keys(D, T key...): the Decomposed deserializer fed a JSON object with the given keys in the given order
        ("serde_dec_keys", [d, rest @ ..]) => {
            let mut keys: Vec<&str> = Vec::new();
            for r in rest { if let Val::T(k) = r { keys.push(k.as_str()) } else { return None } }
            let full = with_typed!(d, t, serde_json::to_value(t).ok()?);
            let mut parts: Vec<String> = Vec::new();
            for k in &keys {
                let v = match full.get(*k) { Some(v) => v.to_string(), None => "0".to_string() };
                parts.push(format!("\"{}\":{}", k, v));
            }
            let text = format!("{{{}}}", parts.join(","));
            let c = all_comps(d)?;
            let (ok, same) = match d {
                Val::DQ(_) => match serde_json::from_str::<DecQ<S>>(&text) { Ok(b) => (true, all_comps(&Val::DQ(b))?.iter().zip(c.iter()).all(|(p, q)| p.bits() == q.bits())), Err(_) => (false, false) },
                Val::D3(_) => match serde_json::from_str::<Dec3<S>>(&text) { Ok(b) => (true, all_comps(&Val::D3(b))?.iter().zip(c.iter()).all(|(p, q)| p.bits() == q.bits())), Err(_) => (false, false) },
                Val::D2(_) => match serde_json::from_str::<Dec2<S>>(&text) { Ok(b) => (true, all_comps(&Val::D2(b))?.iter().zip(c.iter()).all(|(p, q)| p.bits() == q.bits())), Err(_) => (false, false) },
                _ => return None,
            };
            Some(Val::Tup(vec![Val::B(ok), Val::B(same)]))
        }
        // serde_flatten(D): the Decomposed value embedded with #[serde(flatten)] next to another field round-trips
        // (serde then forwards only the field names the Deserialize impl announces)
        ("serde_flatten", [d]) => {
            #[derive(Serialize, serde::Deserialize)]
            struct Wrap<T> { tag: u32, #[serde(flatten)] inner: T }
            let c = all_comps(d)?;
            let ok = match d {
                Val::DQ(t) => { let w = Wrap { tag: 7, inner: *t }; let txt = serde_json::to_string(&w).ok()?;
                    match serde_json::from_str::<Wrap<DecQ<S>>>(&txt) { Ok(b) => b.tag == 7 && all_comps(&Val::DQ(b.inner))?.iter().zip(c.iter()).all(|(p, q)| p.bits() == q.bits()), Err(_) => false } }
                Val::D3(t) => { let w = Wrap { tag: 7, inner: *t }; let txt = serde_json::to_string(&w).ok()?;
                    match serde_json::from_str::<Wrap<Dec3<S>>>(&txt) { Ok(b) => b.tag == 7 && all_comps(&Val::D3(b.inner))?.iter().zip(c.iter()).all(|(p, q)| p.bits() == q.bits()), Err(_) => false } }
                Val::D2(t) => { let w = Wrap { tag: 7, inner: *t }; let txt = serde_json::to_string(&w).ok()?;
                    match serde_json::from_str::<Wrap<Dec2<S>>>(&txt) { Ok(b) => b.tag == 7 && all_comps(&Val::D2(b.inner))?.iter().zip(c.iter()).all(|(p, q)| p.bits() == q.bits()), Err(_) => false } }
                _ => return None,
            };
            Some(Val::Tup(vec![Val::B(ok)]))
        }
        // serde_dec_malformed(D, T kind): input that is not an object with three well-typed fields is never accepted
        ("serde_dec_malformed", [d, Val::T(kind)]) => {
            let full = with_typed!(d, t, serde_json::to_value(t).ok()?);
            let field = |k: &str, bad: bool| format!("\"{}\":{}", k, if bad { "\"x\"".to_string() } else { full.get(k).map(|v| v.to_string()).unwrap_or("0".into()) });
            let text = match kind.as_str() {
                "seq" => "[1,2,3]".to_string(), "num" => "5".to_string(), "str" => "\"scale\"".to_string(), "null" => "null".to_string(), "bool" => "true".to_string(),
                "bad_scale" | "bad_rot" | "bad_disp" => format!("{{{},{},{}}}", field("scale", kind == "bad_scale"), field("rot", kind == "bad_rot"), field("disp", kind == "bad_disp")),
                _ => return None,
            };
            let ok = match d {
                Val::DQ(_) => serde_json::from_str::<DecQ<S>>(&text).is_ok(),
                Val::D3(_) => serde_json::from_str::<Dec3<S>>(&text).is_ok(),
                Val::D2(_) => serde_json::from_str::<Dec2<S>>(&text).is_ok(),
                _ => return None,
            };
            Some(Val::Tup(vec![Val::B(ok)]))
        }
        _ => None,
    }
}
/// wrap a typed value read back by serde into a Val of the same variant as `like`
trait IntoVal<S: Sc> { fn into_val(self) -> Val<S>; }
macro_rules! into_val { ($($t:ty => $v:ident),+ $(,)?) => { $(impl<S: Sc> IntoVal<S> for $t { fn into_val(self) -> Val<S> { Val::$v(self) } })+ } }
into_val!(Vector1<S> => V1, Vector2<S> => V2, Vector3<S> => V3, Vector4<S> => V4, Point1<S> => P1, Point2<S> => P2, Point3<S> => P3,
          Matrix2<S> => M2, Matrix3<S> => M3, Matrix4<S> => M4, Quaternion<S> => Q, Rad<S> => ARad, Deg<S> => ADeg, Basis2<S> => B2, Basis3<S> => B3,
          Euler<Rad<S>> => ERad, Euler<Deg<S>> => EDeg, DecQ<S> => DQ, Dec3<S> => D3, Dec2<S> => D2,
          Ortho<S> => POrtho, Perspective<S> => PPersp, PerspectiveFov<S> => PFov, PlanarFov<S> => Planar);
fn rebuild_from<S: Sc, T: IntoVal<S> + Clone>(_like: &Val<S>, b: &T) -> Option<Val<S>> { Some(b.clone().into_val()) }
