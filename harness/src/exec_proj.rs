//! Pipeline C: integer projections for the clauses that are about floating-point
//! rounding itself (C13 unit round trip, native range membership, turn_div_k * k;
//! C14 constant angular speed for arbitrary t and the 1e-5 rad hand-over clause;
//! C07 the 0.13 bound inside the gimbal-lock cone).  The recorder computes a small
//! integer (or a comparison outcome) from the native values in f64 arithmetic; the
//! specification constrains that integer.  f32 and f64 only.
use crate::sc::Sc;
use crate::val::*;
use cgmath::prelude::*;
use cgmath::*;
use num_traits::{Float, NumCast, ToPrimitive};

fn f<S: ToPrimitive>(x: S) -> f64 { x.to_f64().unwrap() }
fn qv<S: BaseFloat>(q: &Quaternion<S>) -> [f64; 4] { [f(q.s), f(q.v.x), f(q.v.y), f(q.v.z)] }
fn dot4(a: &[f64; 4], b: &[f64; 4]) -> f64 { a.iter().zip(b).map(|(x, y)| x * y).sum() }
fn norm4(a: &[f64; 4]) -> f64 { dot4(a, a).sqrt() }
/// angle between two unit-ish 4-vectors, well conditioned everywhere: 2 atan2(|x - y|, |x + y|)
fn arc(a: &[f64; 4], b: &[f64; 4]) -> f64 {
    let d: [f64; 4] = [a[0] - b[0], a[1] - b[1], a[2] - b[2], a[3] - b[3]];
    let s: [f64; 4] = [a[0] + b[0], a[1] + b[1], a[2] + b[2], a[3] + b[3]];
    2.0 * norm4(&d).atan2(norm4(&s))
}
fn ceil_i(x: f64) -> i64 { if !x.is_finite() { 1 << 30 } else { let c = x.ceil(); if c > 1.0e9 { 1 << 30 } else { c as i64 } } }

pub fn exec_proj<S: Sc + BaseFloat>(op: &str, fm: &str, a: &[Val<S>]) -> Option<Val<S>> {
    use Val::*;
    let eps = f(S::epsilon());
    Some(match (op, a) {
        // (unit deviation in eps, |arc(a,r) - t arc(a,b')| in nanoradians, distance from span(a,b') in eps, on the shorter arc?)
        ("slerp_proj", [Q(x), Q(y), N(t)]) | ("nlerp_proj", [Q(x), Q(y), N(t)]) => {
            let r = if op == "slerp_proj" { x.slerp(*y, *t) } else { x.nlerp(*y, *t) };
            let (av, mut bv, rv, tt) = (qv(x), qv(y), qv(&r), f(*t));
            if dot4(&av, &bv) < 0.0 { for c in bv.iter_mut() { *c = -*c; } }
            let whole = arc(&av, &bv);
            let part = arc(&av, &rv);
            let unit_dev = ceil_i((norm4(&rv) - 1.0).abs() / eps);
            let err_nano = ceil_i((part - tt * whole).abs() / 1.0e-9);
            // component of r orthogonal to span(a, b'): Gram-Schmidt in f64
            let e1 = av;
            let mut e2 = [0.0; 4];
            let k = dot4(&bv, &e1);
            for i in 0..4 { e2[i] = bv[i] - k * e1[i]; }
            let n2 = norm4(&e2);
            let mut res = rv;
            let c1 = dot4(&rv, &e1);
            for i in 0..4 { res[i] -= c1 * e1[i]; }
            if n2 > 1.0e-12 { for i in 0..4 { e2[i] /= n2; } let c2 = dot4(&rv, &e2); for i in 0..4 { res[i] -= c2 * e2[i]; } }
            let coplanar = if n2 > 1.0e-12 { ceil_i(norm4(&res) / eps) } else { 0 };
            let between = part <= whole + 1.0e-9 && arc(&rv, &bv) <= whole + 1.0e-9;
            Tup(vec![I(unit_dev), I(err_nano), I(coplanar), B(between)])
        }
        // slerp between a basis quaternion a (one component +-1) and b = +-(a * half turn about a coordinate axis), built natively:
        // b carries the rounding residue of cos(90 deg) (6e-17 in f64), so a.b is tiny but NOT zero, and because a has a single
        // non-zero component the dot product is computed without rounding: its sign is known exactly to the recorder.
        ("slerp_axis_proj", [I(bi), I(sg), I(ax), B(neg), N(t)]) => {
            let one = S::one();
            let z = S::zero();
            let s1 = if *sg < 0 { -one } else { one };
            let a = match bi { 0 => Quaternion::new(s1, z, z, z), 1 => Quaternion::new(z, s1, z, z), 2 => Quaternion::new(z, z, s1, z), _ => Quaternion::new(z, z, z, s1) };
            let half: Deg<S> = Deg(NumCast::from(180.0f64).unwrap());
            let h: Quaternion<S> = match ax { 0 => Rotation3::from_angle_x(half), 1 => Rotation3::from_angle_y(half), _ => Rotation3::from_angle_z(half) };
            let mut b = a * h;
            if *neg { b = -b; }
            let r = a.slerp(b, *t);
            let (av, mut bv, rv, tt) = (qv(&a), qv(&b), qv(&r), f(*t));
            // exact sign of a.b: the only non-zero term is (+-1) * b_i
            let exact = av.iter().zip(bv.iter()).map(|(x, y)| x * y).fold(0.0f64, |acc, v| if v != 0.0 { v } else { acc });
            let both = exact == 0.0;
            if exact < 0.0 { for c in bv.iter_mut() { *c = -*c; } }
            let whole = arc(&av, &bv);
            let part = arc(&av, &rv);
            let mut err = (part - tt * whole).abs();
            let mut between = part <= whole + 1.0e-9 && arc(&rv, &bv) <= whole + 1.0e-9;
            if both {
                let nb: [f64; 4] = [-bv[0], -bv[1], -bv[2], -bv[3]];
                let e2 = (part - tt * arc(&av, &nb)).abs();
                if e2 < err { err = e2; between = part <= arc(&av, &nb) + 1.0e-9 && arc(&rv, &nb) <= arc(&av, &nb) + 1.0e-9; }
            }
            Tup(vec![I(ceil_i((norm4(&rv) - 1.0).abs() / eps)), I(ceil_i(err / 1.0e-9)), I(0), B(between)])
        }
        // C09 in general position: any rational eye / dir / up (no exact normalisation needed).  The constructor named by the
        // first two arguments is called through the ordinary executor; the recorder then measures, in machine epsilons,
        // how far the result is from a rigid motion with the documented handedness.
        ("look_proj", [T(inner), T(form), rest @ ..]) => {
            let res = crate::exec_geo::exec_flt_geo::<S>(inner, form, rest)?;
            let (eye, dir, up): (Option<Point3<S>>, Vector3<S>, Vector3<S>) = match (inner.as_str(), rest) {
                ("mat3_look_to", [V3(d), V3(u)]) => (None, *d, *u),
                ("mat4_look_to", [P3(e), V3(d), V3(u)]) => (Some(*e), *d, *u),
                ("mat4_look_at", [P3(e), P3(c), V3(u)]) => (Some(*e), c - e, *u),
                ("rot_look_at", [T(_), V3(d), V3(u)]) => (None, *d, *u),
                ("tf_look_at", [T(_), P3(e), P3(c), V3(u)]) => (Some(*e), c - e, *u),
                _ => return None,
            };
            // rotation part and the image of the eye
            let (rot, eye_img): (Matrix3<S>, Option<Point3<S>>) = match &res {
                M3(m) => (*m, None),
                M4(m) => (Matrix3::from_cols(m.x.truncate(), m.y.truncate(), m.z.truncate()), eye.map(|e| m.transform_point(e))),
                Q(q) => (Matrix3::from(*q), None),
                B3(b) => (basis3_mat(b), None),
                DQ(d) => (Matrix3::from(d.rot), eye.map(|e| d.transform_point(e))),
                D3(d) => (basis3_mat(&d.rot), eye.map(|e| d.transform_point(e))),
                _ => return None,
            };
            let g = |v: Vector3<S>| [f(v.x), f(v.y), f(v.z)];
            let cols = [g(rot.x), g(rot.y), g(rot.z)];
            let mul = |v: [f64; 3]| [cols[0][0] * v[0] + cols[1][0] * v[1] + cols[2][0] * v[2],
                                     cols[0][1] * v[0] + cols[1][1] * v[1] + cols[2][1] * v[2],
                                     cols[0][2] * v[0] + cols[1][2] * v[1] + cols[2][2] * v[2]];
            let mut ortho = 0.0f64;
            for i in 0..3 { for j in 0..3 {
                let d: f64 = (0..3).map(|k| cols[i][k] * cols[j][k]).sum::<f64>() - if i == j { 1.0 } else { 0.0 };
                ortho = ortho.max(d.abs());
            } }
            let det = cols[0][0] * (cols[1][1] * cols[2][2] - cols[2][1] * cols[1][2]) - cols[1][0] * (cols[0][1] * cols[2][2] - cols[2][1] * cols[0][2])
                + cols[2][0] * (cols[0][1] * cols[1][2] - cols[1][1] * cols[0][2]);
            let (dv, uv) = (mul(g(dir)), mul(g(up)));
            let dn = (dv[0] * dv[0] + dv[1] * dv[1] + dv[2] * dv[2]).sqrt().max(1e-300);
            let un = (uv[0] * uv[0] + uv[1] * uv[1] + uv[2] * uv[2]).sqrt().max(1e-300);
            let eye_dev = match (eye_img, eye) { (Some(p), Some(e)) => { let s = 1.0 + f(e.x).abs() + f(e.y).abs() + f(e.z).abs();
                ceil_i((f(p.x).abs() + f(p.y).abs() + f(p.z).abs()) / (eps * s)) } _ => 0 };
            Tup(vec![I(ceil_i(ortho / eps)), I(if det > 0.0 { 1 } else { -1 }),
                     I(ceil_i((dv[0].abs() + dv[1].abs()) / (dn * eps))), I(if dv[2] > 0.0 { 1 } else { -1 }),
                     I(ceil_i(uv[0].abs() / (un * eps))), I(if uv[1] >= -eps * un { 1 } else { -1 }), I(eye_dev)])
        }
        // C15 close to (anti)parallel.  a is a unit vector, n a unit vector perpendicular to it (both exact rationals);
        // b = +-cos(d) a + sin(d) (n x a) is built natively, at angle d (or pi - d) from a, for d from a table well above the
        // tolerated 1e-7 rad (1e-4 rad for from_arc).  The recorder measures |r(a) - b| in millionths of d, the deviation of
        // the result from a unit quaternion / orthonormal basis in machine epsilons, and (quaternions) how far the rotation
        // axis is from perpendicular to a, in 1e-9.
        ("arc_proj", [T(kind), V3(a), V3(n), I(dc), B(anti), N(s1), N(s2)]) => {
            let table: &[f64] = if kind.starts_with("arc") { &[1.0e-2, 1.0e-3, 2.0e-4] } else { &[1.0e-3, 1.0e-4, 1.0e-5, 1.0e-6] };
            let d = table[(*dc as usize) % table.len()];
            let ds: S = NumCast::from(d).unwrap();
            let m = n.cross(*a);
            let b = (if *anti { -*a } else { *a }) * ds.cos() + m * ds.sin();
            let b = b / b.magnitude();
            let (au, bu) = ([f(a.x), f(a.y), f(a.z)], [f(b.x), f(b.y), f(b.z)]);
            let (ra, unit_dev, axis_dev): (Vector3<S>, i64, i64) = match kind.as_str() {
                "quat" | "arc" => {
                    let q = if kind == "quat" { <Quaternion<S> as Rotation>::between_vectors(*a, b) } else { Quaternion::from_arc(*a * *s1, b * *s2, None) };
                    let qq = qv(&q);
                    let vn = (qq[1] * qq[1] + qq[2] * qq[2] + qq[3] * qq[3]).sqrt().max(1.0e-300);
                    let ax = ((qq[1] * au[0] + qq[2] * au[1] + qq[3] * au[2]) / vn).abs();
                    (q.rotate_vector(*a), ceil_i((norm4(&qq) - 1.0).abs() / eps), ceil_i(ax / 1.0e-9))
                }
                "basis3" => {
                    let r = <Basis3<S> as Rotation>::between_vectors(*a, b);
                    let mm = basis3_mat(&r);
                    let cols = [[f(mm.x.x), f(mm.x.y), f(mm.x.z)], [f(mm.y.x), f(mm.y.y), f(mm.y.z)], [f(mm.z.x), f(mm.z.y), f(mm.z.z)]];
                    let mut ortho = 0.0f64;
                    for i in 0..3 { for j in 0..3 {
                        let e: f64 = (0..3).map(|k| cols[i][k] * cols[j][k]).sum::<f64>() - if i == j { 1.0 } else { 0.0 };
                        ortho = ortho.max(e.abs());
                    } }
                    (r.rotate_vector(*a), ceil_i(ortho / eps), 0)
                }
                _ => return None,
            };
            let err = ((f(ra.x) - bu[0]).powi(2) + (f(ra.y) - bu[1]).powi(2) + (f(ra.z) - bu[2]).powi(2)).sqrt();
            Tup(vec![I(ceil_i(err / d * 1.0e6)), I(unit_dev), I(axis_dev)])
        }
        ("arc_proj", [T(kind), V2(a), I(dc), B(anti), B(cw)]) if kind == "basis2" => {
            let table: &[f64] = &[1.0e-3, 1.0e-4, 1.0e-5, 1.0e-6];
            let d = table[(*dc as usize) % table.len()];
            let ds: S = NumCast::from(d).unwrap();
            let m = if *cw { Vector2::new(a.y, -a.x) } else { Vector2::new(-a.y, a.x) };
            let b = (if *anti { -*a } else { *a }) * ds.cos() + m * ds.sin();
            let b = b / b.magnitude();
            let r = <Basis2<S> as Rotation>::between_vectors(*a, b);
            let ra = r.rotate_vector(*a);
            let mm = basis2_mat(&r);
            let cols = [[f(mm.x.x), f(mm.x.y)], [f(mm.y.x), f(mm.y.y)]];
            let mut ortho = 0.0f64;
            for i in 0..2 { for j in 0..2 {
                let e: f64 = (0..2).map(|k| cols[i][k] * cols[j][k]).sum::<f64>() - if i == j { 1.0 } else { 0.0 };
                ortho = ortho.max(e.abs());
            } }
            let err = ((f(ra.x) - f(b.x)).powi(2) + (f(ra.y) - f(b.y)).powi(2)).sqrt();
            Tup(vec![I(ceil_i(err / d * 1.0e6)), I(ceil_i(ortho / eps)), I(0)])
        }
        // Deg -> Rad -> Deg (or the reverse) relative error in units of the scalar's epsilon
        ("unit_roundtrip", [T(unit), N(x)]) => {
            let back: S = if unit == "Deg" { let r: Rad<S> = Deg(*x).into(); let d: Deg<S> = r.into(); d.0 } else { let d: Deg<S> = Rad(*x).into(); let r: Rad<S> = d.into(); r.0 };
            let (x0, x1) = (f(*x), f(back));
            let rel = if x0 == 0.0 { (x1 - x0).abs() } else { ((x1 - x0) / x0).abs() };
            I(ceil_i(rel / eps))
        }
        // native range membership of the normalisers, and "differs by a whole number of turns" (deviation in 1e-6 turns)
        ("normalize_native", [T(unit), N(x)]) => {
            let (n, s, full, half): (f64, f64, f64, f64) = if unit == "Deg" {
                (f(Deg(*x).normalize().0), f(Deg(*x).normalize_signed().0), f(Deg::<S>::full_turn().0), f(Deg::<S>::turn_div_2().0))
            } else {
                (f(Rad(*x).normalize().0), f(Rad(*x).normalize_signed().0), f(Rad::<S>::full_turn().0), f(Rad::<S>::turn_div_2().0))
            };
            let x0 = f(*x);
            let turns = |r: f64| { let k = (x0 - r) / full; ceil_i((k - k.round()).abs() / 1.0e-6) };
            Tup(vec![B(n >= 0.0 && n <= full), B(s >= -half && s <= half), I(turns(n)), I(turns(s))])
        }
        ("turn_div_exact", [T(unit), I(k)]) => {
            let kk: S = NumCast::from(*k).unwrap();
            B(if unit == "Deg" {
                let d = match k { 2 => Deg::<S>::turn_div_2(), 3 => Deg::<S>::turn_div_3(), 4 => Deg::<S>::turn_div_4(), 6 => Deg::<S>::turn_div_6(), _ => return None };
                d * kk == Deg::<S>::full_turn()
            } else {
                let d = match k { 2 => Rad::<S>::turn_div_2(), 3 => Rad::<S>::turn_div_3(), 4 => Rad::<S>::turn_div_4(), 6 => Rad::<S>::turn_div_6(), _ => return None };
                d * kk == Rad::<S>::full_turn()
            })
        }
        // full turn: 2 pi rad = 360 deg (difference in eps of the scalar)
        ("full_turn_value", [T(unit)]) => {
            let (v, want) = if unit == "Deg" { (f(Deg::<S>::full_turn().0), 360.0) } else { (f(Rad::<S>::full_turn().0), 2.0 * std::f64::consts::PI) };
            I(ceil_i(((v - want) / want).abs() / eps))
        }
        // Euler extraction: x == 0 ?, |y| == quarter turn ?, y sign, max element difference of the rebuilt rotation in 1/1000, ranges respected?
        ("euler_proj", [Q(q)]) => {
            let e: Euler<Rad<S>> = Euler::from(*q);
            let (m0, m1): (Matrix3<S>, Matrix3<S>) = (Matrix3::from(*q), Matrix3::from(e));
            let mut md = 0.0f64;
            for c in 0..3 { for r in 0..3 { md = md.max((f(m0[c][r]) - f(m1[c][r])).abs()); } }
            let quarter = f(Rad::<S>::turn_div_4().0);
            let pi = f(Rad::<S>::turn_div_2().0);
            let (ex, ey, ez) = (f(e.x.0), f(e.y.0), f(e.z.0));
            let in_range = ex.abs() <= pi && ey.abs() <= quarter && ez.abs() <= pi * (if fm == "wide" { 2.0 } else { 1.0 });
            Tup(vec![B(ex == 0.0), B(ey.abs() == quarter), I(if ey > 0.0 { 1 } else if ey < 0.0 { -1 } else { 0 }), I(ceil_i(md * 1000.0)), B(in_range)])
        }
        _ => return None,
    })
}
