//! Pipeline C: integer projections for the clauses that are about floating-point
//! rounding itself (C13 unit round trip, native range membership, turn_div_k * k;
//! C14 constant angular speed for arbitrary t and the 1e-5 rad hand-over clause;
//! C07 the 0.13 bound inside the gimbal-lock cone).  The recorder computes a small
//! integer (or a comparison outcome) from the native values in f64 arithmetic; the
//! specification constrains that integer.  f32 and f64 only.
use crate::sc::Sc;
use crate::val::*;
use cgmath::prelude::*;
use cgmath::*;
use num_traits::{Float, NumCast, ToPrimitive};

fn f<S: ToPrimitive>(x: S) -> f64 { x.to_f64().unwrap() }
fn qv<S: BaseFloat>(q: &Quaternion<S>) -> [f64; 4] { [f(q.s), f(q.v.x), f(q.v.y), f(q.v.z)] }
fn dot4(a: &[f64; 4], b: &[f64; 4]) -> f64 { a.iter().zip(b).map(|(x, y)| x * y).sum() }
fn norm4(a: &[f64; 4]) -> f64 { dot4(a, a).sqrt() }
/// angle between two unit-ish 4-vectors, well conditioned everywhere: 2 atan2(|x - y|, |x + y|)
fn arc(a: &[f64; 4], b: &[f64; 4]) -> f64 {
    let d: [f64; 4] = [a[0] - b[0], a[1] - b[1], a[2] - b[2], a[3] - b[3]];
    let s: [f64; 4] = [a[0] + b[0], a[1] + b[1], a[2] + b[2], a[3] + b[3]];
    2.0 * norm4(&d).atan2(norm4(&s))
}
fn ceil_i(x: f64) -> i64 { if !x.is_finite() { 1 << 30 } else { let c = x.ceil(); if c > 1.0e9 { 1 << 30 } else { c as i64 } } }

/// angles for small_rot_proj: tiny, a hair from a half turn, a hair from a quarter turn, generic
const SMALL_ANGLES: &[f64] = &[1.0e-3, 1.0e-5, 1.0e-7, 1.0e-8, std::f64::consts::PI - 1.0e-3, std::f64::consts::PI - 1.0e-6, std::f64::consts::PI - 1.0e-8,
                               std::f64::consts::FRAC_PI_2 + 1.0e-7, 2.0, 3.0, 1.0e-2, 1.0e-1];

/// factors for scale_proj: next to 1 (either side), then further and further away
const SCALES: &[f64] = &[1.00003, 0.99998, 1.0000001, 1.001, 1.0e-3, 1.0e3, 1.0e-9, 1.0e9, 1.0e-17, 1.0e17, -1.0e-6, 1.0e-150, 1.0e150, 1.0e-170];
fn maxabs(xs: &[f64]) -> f64 { xs.iter().fold(0.0f64, |a, x| a.max(x.abs())) }
fn m2v<S: BaseFloat>(m: &Matrix2<S>) -> Vec<S> { vec![m.x.x, m.x.y, m.y.x, m.y.y] }
fn m3v<S: BaseFloat>(m: &Matrix3<S>) -> Vec<S> { vec![m.x.x, m.x.y, m.x.z, m.y.x, m.y.y, m.y.z, m.z.x, m.z.y, m.z.z] }
fn m4v<S: BaseFloat>(m: &Matrix4<S>) -> Vec<S> { vec![m.x.x, m.x.y, m.x.z, m.x.w, m.y.x, m.y.y, m.y.z, m.y.w, m.z.x, m.z.y, m.z.z, m.z.w, m.w.x, m.w.y, m.w.z, m.w.w] }

/// every vector / point / matrix / quaternion value multiplied by k (scalars, indices, names unchanged)
fn scale_val<S: Sc + BaseFloat>(v: &Val<S>, k: S) -> Val<S> {
    use Val::*;
    match v {
        V1(x) => V1(*x * k), V2(x) => V2(*x * k), V3(x) => V3(*x * k), V4(x) => V4(*x * k),
        P1(x) => P1(*x * k), P2(x) => P2(*x * k), P3(x) => P3(*x * k),
        M2(x) => M2(*x * k), M3(x) => M3(*x * k), M4(x) => M4(*x * k), Q(x) => Q(*x * k),
        other => other.clone(),
    }
}

pub fn exec_proj<S: Sc + BaseFloat + crate::machine::Exec>(op: &str, fm: &str, a: &[Val<S>]) -> Option<Val<S>> {
    use Val::*;
    let eps = f(S::epsilon());
    Some(match (op, a) {
        // (unit deviation in eps, |arc(a,r) - t arc(a,b')| in nanoradians, distance from span(a,b') in eps, on the shorter arc?)
        ("slerp_proj", [Q(x), Q(y), N(t)]) | ("nlerp_proj", [Q(x), Q(y), N(t)]) => {
            let r = if op == "slerp_proj" { x.slerp(*y, *t) } else { x.nlerp(*y, *t) };
            let (av, mut bv, rv, tt) = (qv(x), qv(y), qv(&r), f(*t));
            if dot4(&av, &bv) < 0.0 { for c in bv.iter_mut() { *c = -*c; } }
            let whole = arc(&av, &bv);
            let part = arc(&av, &rv);
            let unit_dev = ceil_i((norm4(&rv) - 1.0).abs() / eps);
            let err_nano = ceil_i((part - tt * whole).abs() / 1.0e-9);
            // component of r orthogonal to span(a, b'): Gram-Schmidt in f64
            let e1 = av;
            let mut e2 = [0.0; 4];
            let k = dot4(&bv, &e1);
            for i in 0..4 { e2[i] = bv[i] - k * e1[i]; }
            let n2 = norm4(&e2);
            let mut res = rv;
            let c1 = dot4(&rv, &e1);
            for i in 0..4 { res[i] -= c1 * e1[i]; }
            if n2 > 1.0e-12 { for i in 0..4 { e2[i] /= n2; } let c2 = dot4(&rv, &e2); for i in 0..4 { res[i] -= c2 * e2[i]; } }
            let coplanar = if n2 > 1.0e-12 { ceil_i(norm4(&res) / eps) } else { 0 };
            let between = part <= whole + 1.0e-9 && arc(&rv, &bv) <= whole + 1.0e-9;
            Tup(vec![I(unit_dev), I(err_nano), I(coplanar), B(between)])
        }
        // slerp between a basis quaternion a (one component +-1) and b = +-(a * half turn about a coordinate axis), built natively:
        // b carries the rounding residue of cos(90 deg) (6e-17 in f64), so a.b is tiny but NOT zero, and because a has a single
        // non-zero component the dot product is computed without rounding: its sign is known exactly to the recorder.
        ("slerp_axis_proj", [I(bi), I(sg), I(ax), B(neg), N(t)]) => {
            let one = S::one();
            let z = S::zero();
            let s1 = if *sg < 0 { -one } else { one };
            let a = match bi { 0 => Quaternion::new(s1, z, z, z), 1 => Quaternion::new(z, s1, z, z), 2 => Quaternion::new(z, z, s1, z), _ => Quaternion::new(z, z, z, s1) };
            let half: Deg<S> = Deg(NumCast::from(180.0f64).unwrap());
            let h: Quaternion<S> = match ax { 0 => Rotation3::from_angle_x(half), 1 => Rotation3::from_angle_y(half), _ => Rotation3::from_angle_z(half) };
            let mut b = a * h;
            if *neg { b = -b; }
            let r = a.slerp(b, *t);
            let (av, mut bv, rv, tt) = (qv(&a), qv(&b), qv(&r), f(*t));
            // exact sign of a.b: the only non-zero term is (+-1) * b_i
            let exact = av.iter().zip(bv.iter()).map(|(x, y)| x * y).fold(0.0f64, |acc, v| if v != 0.0 { v } else { acc });
            let both = exact == 0.0;
            if exact < 0.0 { for c in bv.iter_mut() { *c = -*c; } }
            let whole = arc(&av, &bv);
            let part = arc(&av, &rv);
            let mut err = (part - tt * whole).abs();
            let mut between = part <= whole + 1.0e-9 && arc(&rv, &bv) <= whole + 1.0e-9;
            if both {
                let nb: [f64; 4] = [-bv[0], -bv[1], -bv[2], -bv[3]];
                let e2 = (part - tt * arc(&av, &nb)).abs();
                if e2 < err { err = e2; between = part <= arc(&av, &nb) + 1.0e-9 && arc(&rv, &nb) <= arc(&av, &nb) + 1.0e-9; }
            }
            Tup(vec![I(ceil_i((norm4(&rv) - 1.0).abs() / eps)), I(ceil_i(err / 1.0e-9)), I(0), B(between)])
        }
        // C09 in general position: any rational eye / dir / up (no exact normalisation needed).  The constructor named by the
        // first two arguments is called through the ordinary executor; the recorder then measures, in machine epsilons,
        // how far the result is from a rigid motion with the documented handedness.
        ("look_proj", [T(inner), T(form), rest @ ..]) => {
            let res = crate::exec_geo::exec_flt_geo::<S>(inner, form, rest)?;
            let (eye, dir, up): (Option<Point3<S>>, Vector3<S>, Vector3<S>) = match (inner.as_str(), rest) {
                ("mat3_look_to", [V3(d), V3(u)]) => (None, *d, *u),
                ("mat4_look_to", [P3(e), V3(d), V3(u)]) => (Some(*e), *d, *u),
                ("mat4_look_at", [P3(e), P3(c), V3(u)]) => (Some(*e), c - e, *u),
                ("rot_look_at", [T(_), V3(d), V3(u)]) => (None, *d, *u),
                ("tf_look_at", [T(_), P3(e), P3(c), V3(u)]) => (Some(*e), c - e, *u),
                _ => return None,
            };
            // rotation part and the image of the eye
            let (rot, eye_img): (Matrix3<S>, Option<Point3<S>>) = match &res {
                M3(m) => (*m, None),
                M4(m) => (Matrix3::from_cols(m.x.truncate(), m.y.truncate(), m.z.truncate()), eye.map(|e| m.transform_point(e))),
                Q(q) => (Matrix3::from(*q), None),
                B3(b) => (basis3_mat(b), None),
                DQ(d) => (Matrix3::from(d.rot), eye.map(|e| d.transform_point(e))),
                D3(d) => (basis3_mat(&d.rot), eye.map(|e| d.transform_point(e))),
                _ => return None,
            };
            let g = |v: Vector3<S>| [f(v.x), f(v.y), f(v.z)];
            let cols = [g(rot.x), g(rot.y), g(rot.z)];
            let mul = |v: [f64; 3]| [cols[0][0] * v[0] + cols[1][0] * v[1] + cols[2][0] * v[2],
                                     cols[0][1] * v[0] + cols[1][1] * v[1] + cols[2][1] * v[2],
                                     cols[0][2] * v[0] + cols[1][2] * v[1] + cols[2][2] * v[2]];
            let mut ortho = 0.0f64;
            for i in 0..3 { for j in 0..3 {
                let d: f64 = (0..3).map(|k| cols[i][k] * cols[j][k]).sum::<f64>() - if i == j { 1.0 } else { 0.0 };
                ortho = ortho.max(d.abs());
            } }
            let det = cols[0][0] * (cols[1][1] * cols[2][2] - cols[2][1] * cols[1][2]) - cols[1][0] * (cols[0][1] * cols[2][2] - cols[2][1] * cols[0][2])
                + cols[2][0] * (cols[0][1] * cols[1][2] - cols[1][1] * cols[0][2]);
            let (dv, uv) = (mul(g(dir)), mul(g(up)));
            let dn = (dv[0] * dv[0] + dv[1] * dv[1] + dv[2] * dv[2]).sqrt().max(1e-300);
            let un = (uv[0] * uv[0] + uv[1] * uv[1] + uv[2] * uv[2]).sqrt().max(1e-300);
            let eye_dev = match (eye_img, eye) { (Some(p), Some(e)) => { let s = 1.0 + f(e.x).abs() + f(e.y).abs() + f(e.z).abs();
                ceil_i((f(p.x).abs() + f(p.y).abs() + f(p.z).abs()) / (eps * s)) } _ => 0 };
            Tup(vec![I(ceil_i(ortho / eps)), I(if det > 0.0 { 1 } else { -1 }),
                     I(ceil_i((dv[0].abs() + dv[1].abs()) / (dn * eps))), I(if dv[2] > 0.0 { 1 } else { -1 }),
                     I(ceil_i(uv[0].abs() / (un * eps))), I(if uv[1] >= -eps * un { 1 } else { -1 }), I(eye_dev)])
        }
        // C05 / C06 at small angles: a rotation by d = 1e-3 .. 1e-8 rad about the exact unit axis n is built natively in the
        // given representation, taken along a route (applied directly, inverted, composed with itself, converted to another
        // representation first), and applied to the exact unit vector v perpendicular to n.  The recorder measures the distance
        // from cos(kd) v + sin(kd) (n x v), k = 1 (0 for the inverse round trip, 2 for the square), in machine epsilons
        // (for d = 1e-8 a bound of 256 eps is a few millionths of the angle).  The table also has angles a hair from a half
        // turn and a quarter turn, and two generic ones.
        ("small_rot_proj", [T(ty), T(route), V3(n), V3(v), I(dc)]) => {
            let d = SMALL_ANGLES[(*dc as usize) % SMALL_ANGLES.len()];
            let th: Rad<S> = Rad(NumCast::from(d).unwrap());
            let on_axis = |w: &Vector3<S>| -> Option<usize> { [Vector3::unit_x(), Vector3::unit_y(), Vector3::unit_z()].iter().position(|e| e == w) };
            let fa = route == "from_angle";
            let zr: Rad<S> = Rad(S::zero());
            let euler = |ax: usize| -> Euler<Rad<S>> { match ax { 0 => Euler::new(th, zr, zr), 1 => Euler::new(zr, th, zr), _ => Euler::new(zr, zr, th) } };
            // the rotation as a quaternion, a 3x3 matrix, a basis or a 4x4 matrix
            enum R<S: BaseFloat> { Q(Quaternion<S>), M3(Matrix3<S>), B3(Basis3<S>), M4(Matrix4<S>) }
            let r: R<S> = match (ty.as_str(), fa) {
                (_, false) if route == "euler" => { let ax = on_axis(n)?; match ty.as_str() {
                    "Quaternion" => R::Q(Quaternion::from(euler(ax))), "Matrix3" => R::M3(Matrix3::from(euler(ax))),
                    "Basis3" => R::B3(Basis3::from(euler(ax))), "Matrix4" => R::M4(Matrix4::from(euler(ax))), _ => return None } }
                ("Quaternion", false) => R::Q(Rotation3::from_axis_angle(*n, th)),
                ("Matrix3", false) => R::M3(Matrix3::from_axis_angle(*n, th)),
                ("Basis3", false) => R::B3(Rotation3::from_axis_angle(*n, th)),
                ("Matrix4", false) => R::M4(Matrix4::from_axis_angle(*n, th)),
                (_, true) => { let ax = on_axis(n)?; match (ty.as_str(), ax) {
                    ("Quaternion", 0) => R::Q(Rotation3::from_angle_x(th)), ("Quaternion", 1) => R::Q(Rotation3::from_angle_y(th)), ("Quaternion", _) => R::Q(Rotation3::from_angle_z(th)),
                    ("Matrix3", 0) => R::M3(Matrix3::from_angle_x(th)), ("Matrix3", 1) => R::M3(Matrix3::from_angle_y(th)), ("Matrix3", _) => R::M3(Matrix3::from_angle_z(th)),
                    ("Basis3", 0) => R::B3(Rotation3::from_angle_x(th)), ("Basis3", 1) => R::B3(Rotation3::from_angle_y(th)), ("Basis3", _) => R::B3(Rotation3::from_angle_z(th)),
                    ("Matrix4", 0) => R::M4(Matrix4::from_angle_x(th)), ("Matrix4", 1) => R::M4(Matrix4::from_angle_y(th)), ("Matrix4", _) => R::M4(Matrix4::from_angle_z(th)),
                    _ => return None } }
                _ => return None,
            };
            let up3 = |m: &Matrix4<S>| Matrix3::from_cols(m.x.truncate(), m.y.truncate(), m.z.truncate());
            let apply = |r: &R<S>, w: Vector3<S>| -> Vector3<S> { match r { R::Q(q) => *q * w, R::M3(m) => *m * w, R::B3(b) => b.rotate_vector(w), R::M4(m) => (*m * w.extend(S::zero())).truncate() } };
            let (k, out): (f64, Vector3<S>) = match route.as_str() {
                "direct" | "from_angle" | "euler" => (1.0, apply(&r, *v)),
                // extract Euler angles from the quaternion and rebuild the rotation from them (outside the gimbal cone)
                "to_euler" => (1.0, match &r { R::Q(q) => Matrix3::from(Euler::from(*q)) * *v, _ => return None }),
                "rotate_vector" => (1.0, match &r { R::Q(q) => q.rotate_vector(*v), R::B3(b) => b.rotate_vector(*v), _ => return None }),
                "invert" => { let w = apply(&r, *v);
                    (0.0, match &r { R::Q(q) => Rotation::invert(q).rotate_vector(w), R::B3(b) => Rotation::invert(b).rotate_vector(w),
                                     R::M3(m) => SquareMatrix::invert(m)? * w, R::M4(m) => (SquareMatrix::invert(m)? * w.extend(S::zero())).truncate() }) }
                "compose" => (2.0, match &r { R::Q(q) => (*q * *q) * *v, R::M3(m) => (*m * *m) * *v, R::B3(b) => (*b * *b).rotate_vector(*v), R::M4(m) => ((*m * *m) * v.extend(S::zero())).truncate() }),
                "via_quat" => (1.0, match &r { R::M3(m) => Quaternion::from(*m) * *v, R::B3(b) => Quaternion::from(*b) * *v, R::M4(m) => Quaternion::from(up3(m)) * *v, _ => return None }),
                "via_mat3" => (1.0, match &r { R::Q(q) => Matrix3::from(*q) * *v, R::B3(b) => Matrix3::from(*b) * *v, _ => return None }),
                "via_basis3" => (1.0, match &r { R::Q(q) => Basis3::from(*q).rotate_vector(*v), R::M3(m) => Basis3::from_quaternion(&Quaternion::from(*m)).rotate_vector(*v), _ => return None }),
                "via_mat4" => (1.0, match &r { R::Q(q) => (Matrix4::from(*q) * v.extend(S::zero())).truncate(), R::M3(m) => (Matrix4::from(*m) * v.extend(S::zero())).truncate(), _ => return None }),
                _ => return None,
            };
            let (nv, vv) = ([f(n.x), f(n.y), f(n.z)], [f(v.x), f(v.y), f(v.z)]);
            let m = [nv[1] * vv[2] - nv[2] * vv[1], nv[2] * vv[0] - nv[0] * vv[2], nv[0] * vv[1] - nv[1] * vv[0]];
            let (c, sn) = ((k * d).cos(), (k * d).sin());
            // Rodrigues with the component along the axis: v c + (n x v) s + n (n.v)(1 - c), 1 - c as 2 sin^2(kd/2)
            let along = nv[0] * vv[0] + nv[1] * vv[1] + nv[2] * vv[2];
            let omc = 2.0 * (k * d / 2.0).sin().powi(2);
            let o = [f(out.x), f(out.y), f(out.z)];
            let err = (0..3).map(|i| (o[i] - (c * vv[i] + sn * m[i] + nv[i] * along * omc)).powi(2)).sum::<f64>().sqrt();
            let len = (o[0] * o[0] + o[1] * o[1] + o[2] * o[2]).sqrt();
            Tup(vec![I(ceil_i(err / eps)), I(ceil_i((len - 1.0).abs() / eps))])
        }
        // the same in two dimensions: Basis2 / Matrix2 from a small angle
        ("small_rot_proj", [T(ty), T(route), V2(v), I(dc)]) => {
            let d = SMALL_ANGLES[(*dc as usize) % SMALL_ANGLES.len()];
            let th: Rad<S> = Rad(NumCast::from(d).unwrap());
            let (k, out): (f64, Vector2<S>) = match (ty.as_str(), route.as_str()) {
                ("Basis2", "direct") => (1.0, <Basis2<S> as Rotation2>::from_angle(th).rotate_vector(*v)),
                ("Basis2", "invert") => { let r = <Basis2<S> as Rotation2>::from_angle(th); (0.0, Rotation::invert(&r).rotate_vector(r.rotate_vector(*v))) }
                ("Basis2", "compose") => { let r = <Basis2<S> as Rotation2>::from_angle(th); (2.0, (r * r).rotate_vector(*v)) }
                ("Matrix2", "direct") => (1.0, Matrix2::from_angle(th) * *v),
                ("Matrix2", "invert") => { let r = Matrix2::from_angle(th); (0.0, SquareMatrix::invert(&r)? * (r * *v)) }
                ("Matrix2", "compose") => { let r = Matrix2::from_angle(th); (2.0, (r * r) * *v) }
                _ => return None,
            };
            let vv = [f(v.x), f(v.y)];
            let (c, sn) = ((k * d).cos(), (k * d).sin());
            let e = [c * vv[0] - sn * vv[1], sn * vv[0] + c * vv[1]];
            let err = ((f(out.x) - e[0]).powi(2) + (f(out.y) - e[1]).powi(2)).sqrt();
            let len = (f(out.x).powi(2) + f(out.y).powi(2)).sqrt();
            Tup(vec![I(ceil_i(err / eps)), I(ceil_i((len - 1.0).abs() / eps))])
        }
        // C11 close to unit length: x is an exact unit vector / quaternion; v = x (1 + g) is built natively for a table of small
        // g of either sign.  normalize(v) must again be x: <<| |r| - 1 | in eps, |r - x| in eps, the same for normalize_to(v, 3) / 3>>
        ("norm_proj", [x, I(gc), B(neg)]) => {
            let table: &[f64] = &[1.0e-2, 1.0e-3, 3.0e-4, 1.0e-5, 1.0e-7, 1.0e-9];
            let g = table[(*gc as usize) % table.len()] * if *neg { -1.0 } else { 1.0 };
            let k: S = NumCast::from(1.0 + g).unwrap();
            let three: S = NumCast::from(3.0f64).unwrap();
            let (c0, c1, c2): (Vec<f64>, Vec<f64>, Vec<f64>) = match x {
                V2(u) => { let w = *u * k; let (r, t) = (w.normalize(), w.normalize_to(three) / three); (vec![f(u.x), f(u.y)], vec![f(r.x), f(r.y)], vec![f(t.x), f(t.y)]) }
                V3(u) => { let w = *u * k; let (r, t) = (w.normalize(), w.normalize_to(three) / three); (vec![f(u.x), f(u.y), f(u.z)], vec![f(r.x), f(r.y), f(r.z)], vec![f(t.x), f(t.y), f(t.z)]) }
                V4(u) => { let w = *u * k; let (r, t) = (w.normalize(), w.normalize_to(three) / three);
                           (vec![f(u.x), f(u.y), f(u.z), f(u.w)], vec![f(r.x), f(r.y), f(r.z), f(r.w)], vec![f(t.x), f(t.y), f(t.z), f(t.w)]) }
                Q(u) => { let w = *u * k; let (r, t) = (w.normalize(), w.normalize_to(three) / three); (qv(u).to_vec(), qv(&r).to_vec(), qv(&t).to_vec()) }
                _ => return None,
            };
            let len = |c: &Vec<f64>| c.iter().map(|x| x * x).sum::<f64>().sqrt();
            let dist = |a: &Vec<f64>, b: &Vec<f64>| a.iter().zip(b.iter()).map(|(x, y)| (x - y).powi(2)).sum::<f64>().sqrt();
            Tup(vec![I(ceil_i((len(&c1) - 1.0).abs() / eps)), I(ceil_i(dist(&c1, &c0) / eps)), I(ceil_i((len(&c2) - 1.0).abs() / eps)), I(ceil_i(dist(&c2, &c0) / eps))])
        }
        // C13 far from the first turn: sin, cos, tan of Rad(x) for x up to millions of radians against the functions of the
        // radian measure, reduced in the recorder with a three-part 2 pi (fused multiply-add, error < 1e-15 rad).
        // <<|sin - ref|, |cos - ref|, |tan - ref| / (1 + ref^2), and the two parts of sin_cos>> in eps
        ("trig_big_proj", [N(x)]) => {
            let xf = f(*x);
            let (hi, lo, lo2) = (6.283185307179586f64, 2.4492935982947064e-16f64, -5.989539619436679e-33f64);
            let kk = (xf / hi).round();
            let red = (-kk).mul_add(hi, xf) - kk * lo - kk * lo2;
            let a = Rad(*x);
            let (sn, cs, tn) = (f(a.sin()), f(a.cos()), f(a.tan()));
            let (s2, c2) = a.sin_cos();
            let rt = red.tan();
            // csc, sec, cot: relative error, plus the allowance for the reduced argument (none inside the first turn)
            let argerr = if kk == 0.0 { 0.0 } else { 1.0e-15 };
            let rel = |val: f64, rf: f64| ceil_i((val - rf).abs() / (eps * rf.abs() + argerr * (1.0 + rf * rf)));
            Tup(vec![I(ceil_i((sn - red.sin()).abs() / eps)), I(ceil_i((cs - red.cos()).abs() / eps)), I(ceil_i((tn - rt).abs() / (eps * (1.0 + rt * rt)))),
                     I(ceil_i((f(s2) - red.sin()).abs() / eps)), I(ceil_i((f(c2) - red.cos()).abs() / eps)),
                     I(rel(f(a.csc()), 1.0 / red.sin())), I(rel(f(a.sec()), 1.0 / red.cos())), I(rel(f(a.cot()), red.cos() / red.sin())),
                     I(rel(sn, red.sin())), I(rel(tn, rt))])
        }
        // C08 with a small but not negligible scale (|s| > 1e-6) or a tiny non-zero determinant: the similarity
        // x -> s R x + d as a Matrix4 / Matrix3 / Matrix2 / Decomposed must still have an inverse that undoes it.
        // <<inverse exists ?, | inv(T(v)) - v | / |v| in eps, | inv(T(p)) - p | / (1 + |p|) in eps>>
        ("tiny_inv_proj", [T(kind), N(sc), Q(q), V3(d), V3(v), I(dexp)]) => {
            // the displacement scaled natively by 10^dexp (an ordinary far-away object)
            let ten: S = NumCast::from(10.0f64).unwrap();
            return exec_proj::<S>("tiny_inv_proj", fm, &[T(kind.clone()), N(*sc), Q(*q), V3(*d * ten.powi(*dexp as i32)), V3(*v)]);
        }
        ("tiny_inv_proj", [T(kind), N(sc), Q(q), V3(d), V3(v)]) => {
            let rot3 = Matrix3::from(*q);
            let pt = Point3::from_vec(*v);
            let zero3 = Vector3::new(S::zero(), S::zero(), S::zero());
            let (some, bv, bp): (bool, Vector3<S>, Point3<S>) = match kind.as_str() {
                "Matrix4" => { let m = Matrix4::from_translation(*d) * Matrix4::from(rot3) * Matrix4::from_scale(*sc);
                    match Transform::<Point3<S>>::inverse_transform(&m) { Some(i) => (true, i.transform_vector(m.transform_vector(*v)), i.transform_point(m.transform_point(pt))), None => (false, zero3, pt) } }
                "Matrix4_invert" => { let m = Matrix4::from_translation(*d) * Matrix4::from(rot3) * Matrix4::from_scale(*sc);
                    match SquareMatrix::invert(&m) { Some(i) => (true, (i * (m * v.extend(S::zero()))).truncate(), Point3::from_homogeneous(i * (m * pt.to_homogeneous()))), None => (false, zero3, pt) } }
                "Matrix3" => { let m = rot3 * *sc;
                    type T3<S> = Matrix3<S>;
                    match <T3<S> as Transform<Point3<S>>>::inverse_transform(&m) {
                        Some(i) => (true, <T3<S> as Transform<Point3<S>>>::transform_vector(&i, <T3<S> as Transform<Point3<S>>>::transform_vector(&m, *v)),
                                    <T3<S> as Transform<Point3<S>>>::transform_point(&i, <T3<S> as Transform<Point3<S>>>::transform_point(&m, pt))),
                        None => (false, zero3, pt) } }
                "Matrix3_invert" => { let m = rot3 * *sc;
                    match SquareMatrix::invert(&m) { Some(i) => (true, i * (m * *v), Point3::from_vec(i * (m * *v))), None => (false, zero3, pt) } }
                "DecQ" => { let t = Decomposed { scale: *sc, rot: *q, disp: *d };
                    match t.inverse_transform() { Some(i) => (true, i.transform_vector(t.transform_vector(*v)), i.transform_point(t.transform_point(pt))), None => (false, zero3, pt) } }
                "Dec3" => { let t = Decomposed { scale: *sc, rot: Basis3::from(*q), disp: *d };
                    match t.inverse_transform() { Some(i) => (true, i.transform_vector(t.transform_vector(*v)), i.transform_point(t.transform_point(pt))), None => (false, zero3, pt) } }
                "DecQ_vector" => { let t = Decomposed { scale: *sc, rot: *q, disp: *d };
                    match t.inverse_transform_vector(t.transform_vector(*v)) { Some(w) => (true, w, pt), None => (false, zero3, pt) } }
                _ => return None,
            };
            let vl = (f(v.x).powi(2) + f(v.y).powi(2) + f(v.z).powi(2)).sqrt().max(1.0e-300);
            let ev = ((f(bv.x) - f(v.x)).powi(2) + (f(bv.y) - f(v.y)).powi(2) + (f(bv.z) - f(v.z)).powi(2)).sqrt() / vl;
            // the displacement is cancelled at its own magnitude and then divided by the scale
            let dl = (f(d.x).powi(2) + f(d.y).powi(2) + f(d.z).powi(2)).sqrt();
            let ep = ((f(bp.x) - f(v.x)).powi(2) + (f(bp.y) - f(v.y)).powi(2) + (f(bp.z) - f(v.z)).powi(2)).sqrt() / (vl + dl / f(*sc).abs());
            Tup(vec![B(some), I(ceil_i(ev / eps)), I(ceil_i(ep / eps))])
        }
        // C10 with near and far a hair apart: far = near (1 + g), g = 1e-3 .. 1e-9.  The constructor must not reject the
        // parameters (near != far) and still sends the near plane to -1 and the far plane to +1; the cancellation costs
        // a factor 1/g, so the deviations are measured in units of eps / g.  <<built ?, near plane, far plane>>
        ("slab_proj", [T(ctor), N(n), I(gc)]) => {
            let table: &[f64] = &[1.0e-3, 1.0e-5, 1.0e-7, 1.0e-9];
            let g = table[(*gc as usize) % table.len()];
            let fa: S = *n * NumCast::from(1.0 + g).unwrap();
            let c = |x: f64| -> S { NumCast::from(x).unwrap() };
            let m: Matrix4<S> = match ctor.as_str() {
                "perspective" => cgmath::perspective(Deg(c(60.0)), c(1.5), *n, fa),
                "perspective_fov" => PerspectiveFov { fovy: Rad(c(1.0)), aspect: c(0.75), near: *n, far: fa }.into(),
                "frustum" => cgmath::frustum(c(-1.0), c(2.0), c(-1.0), c(1.5), *n, fa),
                "perspective_struct" => Perspective { left: c(-1.0), right: c(2.0), bottom: c(-1.0), top: c(1.5), near: *n, far: fa }.into(),
                "ortho" => cgmath::ortho(c(-1.0), c(2.0), c(-1.0), c(1.5), *n, fa),
                "planar" => cgmath::planar(Deg(c(60.0)), c(1.5), c(2.0), *n, fa),
                _ => return None,
            };
            let z = |depth: S| -> f64 { let h = m * Vector4::new(S::zero(), S::zero(), -depth, S::one()); f(h.z) / f(h.w) };
            Tup(vec![B(true), I(ceil_i((z(*n) + 1.0).abs() * g / eps)), I(ceil_i((z(fa) - 1.0).abs() * g / eps))])
        }
        // Homogeneity (C01-C04, C11, C12, C18): F(k x) against k^d F(x), both computed natively, for k next to 1 and many
        // orders of magnitude away from it.  The exact pipeline settles F on the nice argument x; this settles that nothing
        // in F depends on the size of its argument (tolerances that should be relative, early returns for small or nearly
        // unit inputs, intermediate overflow / underflow).  Result: <<deviation in eps (relative to the largest expected
        // component and, for inverses, to the condition number), B: predicates agree / an inverse exists in both cases>>
        ("scale_proj", [T(fname), I(kc), rest @ ..]) => {
            let k = SCALES[(*kc as usize) % SCALES.len()];
            let ks: S = NumCast::from(k).unwrap();
            let fl = |xs: &[S]| -> Vec<f64> { xs.iter().map(|x| f(*x)).collect() };
            // (expected, got, extra conditioning factor, boolean verdict)
            let (exp, got, cond, ok): (Vec<f64>, Vec<f64>, f64, bool) = match (fname.as_str(), rest) {
                ("m4_invert", [M4(m)]) | ("m4_inverse_transform", [M4(m)]) => {
                    let tr = fname == "m4_inverse_transform";
                    let inv = |x: &Matrix4<S>| if tr { Transform::<Point3<S>>::inverse_transform(x) } else { SquareMatrix::invert(x) };
                    match (inv(m), inv(&(*m * ks))) { (Some(a), Some(b)) => { let (a, b) = (m4v(&a), m4v(&b)); let c = maxabs(&fl(&m4v(m))) * maxabs(&fl(&a)) * 4.0;
                        (fl(&a).iter().map(|x| x / k).collect(), fl(&b), c, true) } (None, None) => (vec![0.0], vec![0.0], 1.0, true), _ => (vec![0.0], vec![0.0], 1.0, false) } }
                ("m3_invert", [M3(m)]) => match (SquareMatrix::invert(m), SquareMatrix::invert(&(*m * ks))) {
                    (Some(a), Some(b)) => { let (a, b) = (m3v(&a), m3v(&b)); let c = maxabs(&fl(&m3v(m))) * maxabs(&fl(&a)) * 3.0; (fl(&a).iter().map(|x| x / k).collect(), fl(&b), c, true) }
                    (None, None) => (vec![0.0], vec![0.0], 1.0, true), _ => (vec![0.0], vec![0.0], 1.0, false) },
                ("m2_invert", [M2(m)]) => match (SquareMatrix::invert(m), SquareMatrix::invert(&(*m * ks))) {
                    (Some(a), Some(b)) => { let (a, b) = (m2v(&a), m2v(&b)); let c = maxabs(&fl(&m2v(m))) * maxabs(&fl(&a)) * 2.0; (fl(&a).iter().map(|x| x / k).collect(), fl(&b), c, true) }
                    (None, None) => (vec![0.0], vec![0.0], 1.0, true), _ => (vec![0.0], vec![0.0], 1.0, false) },
                // M_k * inv(M_k) = inv(M_k) * M_k = I whatever the units of M: residual per unit of condition number
                ("m4_inv_resid", [M4(m)]) => { let mk = *m * ks; match SquareMatrix::invert(&mk) {
                    Some(i) => { let c = maxabs(&fl(&m4v(&mk))) * maxabs(&fl(&m4v(&i))) * 4.0; let (l, r) = (m4v(&(mk * i)), m4v(&(i * mk)));
                        (fl(&m4v(&Matrix4::identity())).iter().chain(fl(&m4v(&Matrix4::identity())).iter()).cloned().collect(), fl(&l).iter().chain(fl(&r).iter()).cloned().collect(), c, true) }
                    None => (vec![0.0], vec![0.0], 1.0, false) } }
                ("m3_inv_resid", [M3(m)]) => { let mk = *m * ks; match SquareMatrix::invert(&mk) {
                    Some(i) => { let c = maxabs(&fl(&m3v(&mk))) * maxabs(&fl(&m3v(&i))) * 3.0; let (l, r) = (m3v(&(mk * i)), m3v(&(i * mk)));
                        (fl(&m3v(&Matrix3::identity())).iter().chain(fl(&m3v(&Matrix3::identity())).iter()).cloned().collect(), fl(&l).iter().chain(fl(&r).iter()).cloned().collect(), c, true) }
                    None => (vec![0.0], vec![0.0], 1.0, false) } }
                ("m2_inv_resid", [M2(m)]) => { let mk = *m * ks; match SquareMatrix::invert(&mk) {
                    Some(i) => { let c = maxabs(&fl(&m2v(&mk))) * maxabs(&fl(&m2v(&i))) * 2.0; let (l, r) = (m2v(&(mk * i)), m2v(&(i * mk)));
                        (fl(&m2v(&Matrix2::identity())).iter().chain(fl(&m2v(&Matrix2::identity())).iter()).cloned().collect(), fl(&l).iter().chain(fl(&r).iter()).cloned().collect(), c, true) }
                    None => (vec![0.0], vec![0.0], 1.0, false) } }
                // rows scaled by k, 1, 1/k (, 1): inv(R A) = inv(A) inv(R), column j of the inverse is divided by r_j; checked
                // column by column, relative to the largest entry of that column (cofactor formulas are exact in the grading)
                ("m2_inv_graded", [M2(m)]) => { let one = S::one(); let r = [ks, one / ks];
                    let mut a = *m; for c in 0..2 { for i in 0..2 { a[c][i] = a[c][i] * r[i]; } }
                    match (SquareMatrix::invert(m), SquareMatrix::invert(&a)) { (Some(i0), Some(i1)) => {
                        let cnd = maxabs(&fl(&m2v(m))) * maxabs(&fl(&m2v(&i0))) * 2.0; let mut d = 0.0f64;
                        for j in 0..2 { let colmax = (0..2).map(|i| (f(i0[j][i]) / f(r[j])).abs()).fold(0.0f64, f64::max).max(1.0e-300);
                            for i in 0..2 { d = d.max((f(i1[j][i]) - f(i0[j][i]) / f(r[j])).abs() / colmax); } }
                        (vec![1.0], vec![1.0 + d], cnd, true) } (None, None) => (vec![0.0], vec![0.0], 1.0, true), _ => (vec![0.0], vec![0.0], 1.0, false) } }
                ("m3_inv_graded", [M3(m)]) => { let one = S::one(); let r = [ks, one, one / ks];
                    let mut a = *m; for c in 0..3 { for i in 0..3 { a[c][i] = a[c][i] * r[i]; } }
                    match (SquareMatrix::invert(m), SquareMatrix::invert(&a)) { (Some(i0), Some(i1)) => {
                        let cnd = maxabs(&fl(&m3v(m))) * maxabs(&fl(&m3v(&i0))) * 3.0; let mut d = 0.0f64;
                        for j in 0..3 { let colmax = (0..3).map(|i| (f(i0[j][i]) / f(r[j])).abs()).fold(0.0f64, f64::max).max(1.0e-300);
                            for i in 0..3 { d = d.max((f(i1[j][i]) - f(i0[j][i]) / f(r[j])).abs() / colmax); } }
                        (vec![1.0], vec![1.0 + d], cnd, true) } (None, None) => (vec![0.0], vec![0.0], 1.0, true), _ => (vec![0.0], vec![0.0], 1.0, false) } }
                ("m4_inv_graded", [M4(m)]) => { let one = S::one(); let r = [ks, one, one / ks, one];
                    let mut a = *m; for c in 0..4 { for i in 0..4 { a[c][i] = a[c][i] * r[i]; } }
                    match (SquareMatrix::invert(m), SquareMatrix::invert(&a)) { (Some(i0), Some(i1)) => {
                        let cnd = maxabs(&fl(&m4v(m))) * maxabs(&fl(&m4v(&i0))) * 4.0; let mut d = 0.0f64;
                        for j in 0..4 { let colmax = (0..4).map(|i| (f(i0[j][i]) / f(r[j])).abs()).fold(0.0f64, f64::max).max(1.0e-300);
                            for i in 0..4 { d = d.max((f(i1[j][i]) - f(i0[j][i]) / f(r[j])).abs() / colmax); } }
                        (vec![1.0], vec![1.0 + d], cnd, true) } (None, None) => (vec![0.0], vec![0.0], 1.0, true), _ => (vec![0.0], vec![0.0], 1.0, false) } }
                ("m4_det", [M4(m)]) => (vec![f(m.determinant()) * k.powi(4)], vec![f((*m * ks).determinant())], 24.0, true),
                ("m3_det", [M3(m)]) => (vec![f(m.determinant()) * k.powi(3)], vec![f((*m * ks).determinant())], 6.0, true),
                ("m4_transform_point", [M4(m), P3(p)]) => { let (a, b) = (m.transform_point(*p), (*m * ks).transform_point(*p)); (vec![f(a.x), f(a.y), f(a.z)], vec![f(b.x), f(b.y), f(b.z)], 4.0, true) }
                ("from_homogeneous", [V4(h)]) => { let (a, b) = (Point3::from_homogeneous(*h), Point3::from_homogeneous(*h * ks)); (vec![f(a.x), f(a.y), f(a.z)], vec![f(b.x), f(b.y), f(b.z)], 1.0, true) }
                ("q_invert", [Q(q)]) => { let (a, b) = (Rotation::invert(q), Rotation::invert(&(*q * ks))); (qv(&a).iter().map(|x| x / k).collect(), qv(&b).to_vec(), 1.0, true) }
                ("q_normalize", [Q(q)]) if k > 0.0 => (qv(&q.normalize()).to_vec(), qv(&(*q * ks).normalize()).to_vec(), 1.0, true),
                ("v3_normalize", [V3(v)]) if k > 0.0 => { let (a, b) = (v.normalize(), (*v * ks).normalize()); (vec![f(a.x), f(a.y), f(a.z)], vec![f(b.x), f(b.y), f(b.z)], 1.0, true) }
                ("v2_normalize", [V2(v)]) if k > 0.0 => { let (a, b) = (v.normalize(), (*v * ks).normalize()); (vec![f(a.x), f(a.y)], vec![f(b.x), f(b.y)], 1.0, true) }
                ("v4_normalize", [V4(v)]) if k > 0.0 => { let (a, b) = (v.normalize(), (*v * ks).normalize()); (vec![f(a.x), f(a.y), f(a.z), f(a.w)], vec![f(b.x), f(b.y), f(b.z), f(b.w)], 1.0, true) }
                ("v3_magnitude", [V3(v)]) => (vec![f(v.magnitude()) * k.abs()], vec![f((*v * ks).magnitude())], 1.0, true),
                ("v3_angle", [V3(u), V3(v)]) if k > 0.0 => (vec![f(u.angle(*v).0)], vec![f((*u * ks).angle(*v).0)], 1.0, true),
                ("v2_angle", [V2(u), V2(v)]) if k > 0.0 => (vec![f(u.angle(*v).0)], vec![f((*u * ks).angle(*v).0)], 1.0, true),
                ("v3_project_on", [V3(u), V3(v)]) => { let (a, b) = (u.project_on(*v), u.project_on(*v * ks)); (vec![f(a.x), f(a.y), f(a.z)], vec![f(b.x), f(b.y), f(b.z)], 1.0, true) }
                ("v3_cross", [V3(u), V3(v)]) => { let (a, b) = (u.cross(*v), u.cross(*v * ks)); let c = (maxabs(&[f(u.x), f(u.y), f(u.z)]) * maxabs(&[f(v.x), f(v.y), f(v.z)]) / maxabs(&[f(a.x), f(a.y), f(a.z)]).max(1.0e-300)).max(1.0);
                    (vec![f(a.x) * k, f(a.y) * k, f(a.z) * k], vec![f(b.x), f(b.y), f(b.z)], c, true) }
                ("v3_dot", [V3(u), V3(v)]) => { let c = (maxabs(&[f(u.x), f(u.y), f(u.z)]) * maxabs(&[f(v.x), f(v.y), f(v.z)]) * 3.0 / f(u.dot(*v)).abs().max(1.0e-300)).max(1.0);
                    (vec![f(u.dot(*v)) * k], vec![f(u.dot(*v * ks))], c, true) }
                ("v2_perp_dot", [V2(u), V2(v)]) => { let c = (maxabs(&[f(u.x), f(u.y)]) * maxabs(&[f(v.x), f(v.y)]) * 2.0 / f(u.perp_dot(*v)).abs().max(1.0e-300)).max(1.0);
                    (vec![f(u.perp_dot(*v)) * k], vec![f(u.perp_dot(*v * ks))], c, true) }
                // both operands scaled: degree 2 for the bilinear forms, 0 for angles, 1 for the projection
                ("v3_cross_both", [V3(u), V3(v)]) => { let (a, b) = (u.cross(*v), (*u * ks).cross(*v * ks)); let c = (maxabs(&[f(u.x), f(u.y), f(u.z)]) * maxabs(&[f(v.x), f(v.y), f(v.z)]) / maxabs(&[f(a.x), f(a.y), f(a.z)]).max(1.0e-300)).max(1.0);
                    (vec![f(a.x) * k * k, f(a.y) * k * k, f(a.z) * k * k], vec![f(b.x), f(b.y), f(b.z)], c, true) }
                ("v3_dot_both", [V3(u), V3(v)]) => { let c = (maxabs(&[f(u.x), f(u.y), f(u.z)]) * maxabs(&[f(v.x), f(v.y), f(v.z)]) * 3.0 / f(u.dot(*v)).abs().max(1.0e-300)).max(1.0);
                    (vec![f(u.dot(*v)) * k * k], vec![f((*u * ks).dot(*v * ks))], c, true) }
                ("v2_perp_dot_both", [V2(u), V2(v)]) => { let c = (maxabs(&[f(u.x), f(u.y)]) * maxabs(&[f(v.x), f(v.y)]) * 2.0 / f(u.perp_dot(*v)).abs().max(1.0e-300)).max(1.0);
                    (vec![f(u.perp_dot(*v)) * k * k], vec![f((*u * ks).perp_dot(*v * ks))], c, true) }
                ("v3_angle_both", [V3(u), V3(v)]) => (vec![f(u.angle(*v).0)], vec![f((*u * ks).angle(*v * ks).0)], 1.0, true),
                ("v2_angle_both", [V2(u), V2(v)]) => (vec![f(u.angle(*v).0)], vec![f((*u * ks).angle(*v * ks).0)], 1.0, true),
                ("v3_project_on_both", [V3(u), V3(v)]) => { let (a, b) = (u.project_on(*v), (*u * ks).project_on(*v * ks)); (vec![f(a.x) * k, f(a.y) * k, f(a.z) * k], vec![f(b.x), f(b.y), f(b.z)], 1.0, true) }
                ("from_arc", [V3(a), V3(b)]) if k > 0.0 => (qv(&Quaternion::from_arc(*a, *b, None)).to_vec(), qv(&Quaternion::from_arc(*a * ks, *b, None)).to_vec(), 1.0, true),
                // vectors: is_zero exactly when every component equals zero, whatever the size of the others
                ("v3_is_zero", [V3(v)]) => (vec![0.0], vec![0.0], 1.0, Zero::is_zero(v) == Zero::is_zero(&(*v * ks))),
                ("v4_is_zero", [V4(v)]) => (vec![0.0], vec![0.0], 1.0, Zero::is_zero(v) == Zero::is_zero(&(*v * ks))),
                ("v2_is_zero", [V2(v)]) => (vec![0.0], vec![0.0], 1.0, Zero::is_zero(v) == Zero::is_zero(&(*v * ks))),
                _ => return None,
            };
            let scale = maxabs(&exp).max(1.0e-300);
            let dev = exp.iter().zip(got.iter()).map(|(a, b)| (a - b).abs()).fold(0.0f64, f64::max) / (scale * eps * cond.max(1.0));
            Tup(vec![I(ceil_i(dev)), B(ok)])
        }
        // C01 on awkward operands: column c of A*B against A*(column c of B), the two computed by different code (matrix
        // times matrix in each operand form, concat, iter::Product; matrix times vector).  A gets a large last column
        // (a translation of 1e6), B a last row that is (0,0,0,1) up to a perturbation from 1e-8 down to 1e-17 or exactly.
        // Deviation in units of eps * sum |a_rk| |b_kc| (the rounding bound of a dot product), maximum over entries and forms.
        ("mm_col_proj", [M4(a0), M4(b0), I(code)]) => {
            let table: &[f64] = &[1.0e-16, 3.0e-17, 1.0e-12, 1.0e-8, 0.0, 1.0e-3];
            let g: S = NumCast::from(table[(*code as usize) % table.len()]).unwrap();
            let big: S = NumCast::from(1.0e6f64).unwrap();
            let mut a = *a0; a.w.x = a.w.x * big; a.w.y = a.w.y * big; a.w.z = a.w.z * big;
            let mut b = *b0;
            let two: S = NumCast::from(2.0f64).unwrap();
            b.x.w = b.x.w + g; b.y.w = b.y.w - g * two; b.z.w = b.z.w + g / two;
            let prods: Vec<Matrix4<S>> = vec![a * b, &a * b, a * &b, &a * &b, Transform::<Point3<S>>::concat(&a, &b), [a, b].iter().product(), [a, b].iter().cloned().product()];
            let (av, bv) = (m4v(&a), m4v(&b));
            let mut dev = 0.0f64;
            for c in 0..4 {
                let col = match c { 0 => b.x, 1 => b.y, 2 => b.z, _ => b.w };
                let q = a * col;
                let qv4 = [f(q.x), f(q.y), f(q.z), f(q.w)];
                for r in 0..4 {
                    let bound: f64 = (0..4).map(|kk| (f(av[kk * 4 + r]) * f(bv[c * 4 + kk])).abs()).sum::<f64>().max(1.0e-300);
                    for pm in &prods { let pv = m4v(pm); dev = dev.max((f(pv[c * 4 + r]) - qv4[r]).abs() / (eps * bound)); }
                }
            }
            Tup(vec![I(ceil_i(dev)), B(true)])
        }
        ("mm_col_proj", [M3(a0), M3(b0), I(code)]) => {
            let table: &[f64] = &[1.0e-16, 3.0e-17, 1.0e-12, 1.0e-8, 0.0, 1.0e-3];
            let g: S = NumCast::from(table[(*code as usize) % table.len()]).unwrap();
            let big: S = NumCast::from(1.0e6f64).unwrap();
            let mut a = *a0; a.z.x = a.z.x * big; a.z.y = a.z.y * big;
            let mut b = *b0;
            let two: S = NumCast::from(2.0f64).unwrap();
            b.x.z = b.x.z + g; b.y.z = b.y.z - g * two;
            let prods: Vec<Matrix3<S>> = vec![a * b, &a * b, a * &b, &a * &b, Transform::<Point2<S>>::concat(&a, &b), [a, b].iter().product(), [a, b].iter().cloned().product()];
            let (av, bv) = (m3v(&a), m3v(&b));
            let mut dev = 0.0f64;
            for c in 0..3 {
                let col = match c { 0 => b.x, 1 => b.y, _ => b.z };
                let q = a * col;
                let qv3 = [f(q.x), f(q.y), f(q.z)];
                for r in 0..3 {
                    let bound: f64 = (0..3).map(|kk| (f(av[kk * 3 + r]) * f(bv[c * 3 + kk])).abs()).sum::<f64>().max(1.0e-300);
                    for pm in &prods { let pv = m3v(pm); dev = dev.max((f(pv[c * 3 + r]) - qv3[r]).abs() / (eps * bound)); }
                }
            }
            Tup(vec![I(ceil_i(dev)), B(true)])
        }
        // Homogeneity of ANY operation of the machine: the inner call (name, operand form, exact arguments) is executed
        // through the ordinary executor twice - on the arguments as given and with every vector / point / matrix / quaternion
        // argument multiplied by k - and the second result is compared with k^d times the first (d = the degree the model
        // states for the operation).  <<deviation in eps relative to the largest expected component times the cancellation
        // factor the recorder observes, both calls of the same kind (value / None / panic)>>
        ("hom_proj", [T(inner), T(form), I(kc), I(deg), rest @ ..]) => {
            let k = SCALES[(*kc as usize) % SCALES.len()];
            let ks: S = NumCast::from(k).unwrap();
            // form suffix "@s": the scalar arguments are scaled instead of the compound ones
            let (form, scalars) = match form.strip_suffix("@s") { Some(fm0) => (fm0.to_string(), true), None => (form.clone(), false) };
            let form = &form;
            let scaled: Vec<Val<S>> = rest.iter().map(|v| if scalars { if let N(x) = v { N(*x * ks) } else { v.clone() } } else { scale_val(v, ks) }).collect();
            let base = <S as crate::machine::Exec>::exec(inner, form, rest)?;
            let got = <S as crate::machine::Exec>::exec(inner, form, &scaled)?;
            fn unwrap_opt<S: Sc>(v: &Val<S>) -> (u8, Option<&Val<S>>) { match v { Val::OSome(b) => (1, Some(&**b)), Val::ONone => (2, None), Val::Panic => (3, None), x => (0, Some(x)) } }
            let ((kb, vb), (kg, vg)) = (unwrap_opt(&base), unwrap_opt(&got));
            if kb != kg { return Some(Tup(vec![I(0), B(false)])); }
            let (vb, vg) = match (vb, vg) { (Some(x), Some(y)) => (x, y), _ => return Some(Tup(vec![I(0), B(true)])) };
            if let (B(x), B(y)) = (vb, vg) { return Some(Tup(vec![I(0), B(x == y)])); }
            let (cb, cg) = (crate::exec_misc::comps(vb)?, crate::exec_misc::comps(vg)?);
            if cb.len() != cg.len() { return Some(Tup(vec![I(0), B(false)])); }
            let kd = k.powi(*deg as i32);
            let exp: Vec<f64> = cb.iter().map(|x| f(*x) * kd).collect();
            let gotv: Vec<f64> = cg.iter().map(|x| f(*x)).collect();
            // cancellation: the largest argument component to the power of the degree against the largest result component
            let amax = rest.iter().filter_map(|v| crate::exec_misc::comps(v)).flatten().map(|x| f(x).abs()).fold(0.0f64, f64::max).max(1.0);
            let scale = maxabs(&exp).max(1.0e-300);
            let cond = if *deg >= 1 { (amax.powi(*deg as i32) * kd.abs() / scale).max(1.0) } else { 1.0 } * 8.0;
            let dev = exp.iter().zip(gotv.iter()).map(|(x, y)| (x - y).abs()).fold(0.0f64, f64::max) / (scale * eps * cond);
            Tup(vec![I(ceil_i(dev)), B(true)])
        }
        // C03 close to parallel: cross(u, u + g w) = g cross(u, w) for exact u, w and g = 1e-3 .. 1e-12 built natively;
        // deviation in units of eps |u| |v| (the natural absolute accuracy of a cross product); likewise perp_dot in 2-D
        ("cross_near_proj", [V3(u), V3(w), I(gc)]) => {
            let table: &[f64] = &[1.0e-3, 1.0e-6, 1.0e-9, 1.0e-12];
            let g = table[(*gc as usize) % table.len()];
            let gs: S = NumCast::from(g).unwrap();
            let v = *u + *w * gs;
            let (c, e) = (u.cross(v), u.cross(*w));
            // what the exact product of u with the v actually built is: g (u x w) up to the rounding of v itself
            let un = maxabs(&[f(u.x), f(u.y), f(u.z)]);
            let dev = [(f(c.x) - g * f(e.x)).abs(), (f(c.y) - g * f(e.y)).abs(), (f(c.z) - g * f(e.z)).abs()].iter().cloned().fold(0.0f64, f64::max) / (eps * un * un * 8.0);
            Tup(vec![I(ceil_i(dev)), B(true)])
        }
        // C09 over magnitudes that no rational of the model reaches: up and dir are scaled natively by 10^ue and 10^de
        // before the constructor is called; the measurements are those of look_proj (all scale-free)
        ("look_mag_proj", [T(inner), T(form), I(ue), I(de), rest @ ..]) => {
            let ten: S = NumCast::from(10.0f64).unwrap();
            let (us, ds) = (ten.powi(*ue as i32), ten.powi(*de as i32));
            // rebuild the argument list with the scaled vectors: [.., dir or (eye, center), up]
            let mut args: Vec<Val<S>> = rest.to_vec();
            let n = args.len();
            if let V3(u) = args[n - 1] { args[n - 1] = V3(u * us); } else { return None; }
            match (&args[n - 2], n >= 3) {
                (V3(d), _) => { let d = *d; args[n - 2] = V3(d * ds); }
                (P3(c), true) => { if let P3(e) = args[n - 3] { let c = *c; args[n - 2] = P3(e + (c - e) * ds); } else { return None; } }
                _ => return None,
            }
            let mut a2: Vec<Val<S>> = vec![T(inner.clone()), T(form.clone())];
            a2.extend(args);
            return exec_proj::<S>("look_proj", fm, &a2);
        }
        // C08 composition at awkward sizes: t1 = (s1 10^e1, q1, d1 10^f1), t2 likewise, built natively; concat(t1, t2) applied to p
        // against t1 applied to t2 applied to p, for Decomposed (quaternion and basis rotation) and for the Matrix4 of each;
        // deviation in eps relative to the size of the exact intermediate terms
        ("dec_concat_proj", [T(kind), Q(q1), Q(q2), V3(d1), V3(d2), V3(pv), I(e1), I(e2), I(f1), I(f2)]) => {
            let ten: S = NumCast::from(10.0f64).unwrap();
            let half: S = NumCast::from(1.5f64).unwrap();
            let (s1, s2) = (half * ten.powi(*e1 as i32), -half * ten.powi(*e2 as i32));
            let (dd1, dd2) = (*d1 * ten.powi(*f1 as i32), *d2 * ten.powi(*f2 as i32));
            let p = Point3::from_vec(*pv);
            let (lhs, rhs): (Point3<S>, Point3<S>) = match kind.as_str() {
                "DecQ" => { let (t1, t2) = (Decomposed { scale: s1, rot: *q1, disp: dd1 }, Decomposed { scale: s2, rot: *q2, disp: dd2 });
                    (t1.concat(&t2).transform_point(p), t1.transform_point(t2.transform_point(p))) }
                "Dec3" => { let (t1, t2) = (Decomposed { scale: s1, rot: Basis3::from(*q1), disp: dd1 }, Decomposed { scale: s2, rot: Basis3::from(*q2), disp: dd2 });
                    (t1.concat(&t2).transform_point(p), t1.transform_point(t2.transform_point(p))) }
                "DecQ_mul" => { let (t1, t2) = (Decomposed { scale: s1, rot: *q1, disp: dd1 }, Decomposed { scale: s2, rot: *q2, disp: dd2 });
                    ((t1 * t2).transform_point(p), t1.transform_point(t2.transform_point(p))) }
                "Matrix4" => { let (t1, t2) = (Decomposed { scale: s1, rot: *q1, disp: dd1 }, Decomposed { scale: s2, rot: *q2, disp: dd2 });
                    let (m1, m2): (Matrix4<S>, Matrix4<S>) = (t1.into(), t2.into());
                    (Transform::<Point3<S>>::concat(&m1, &m2).transform_point(p), m1.transform_point(m2.transform_point(p))) }
                "Mat_of_concat" => { let (t1, t2) = (Decomposed { scale: s1, rot: *q1, disp: dd1 }, Decomposed { scale: s2, rot: *q2, disp: dd2 });
                    let m: Matrix4<S> = t1.concat(&t2).into();
                    (m.transform_point(p), t1.transform_point(t2.transform_point(p))) }
                _ => return None,
            };
            let nrm = |v: &Vector3<S>| (f(v.x).powi(2) + f(v.y).powi(2) + f(v.z).powi(2)).sqrt();
            // |s1| (|s2| |p| + |d2|) + |d1|: the size of what is added and cancelled on the way
            let size = f(s1).abs() * (f(s2).abs() * nrm(pv) + nrm(&dd2)) + nrm(&dd1);
            let err = ((f(lhs.x) - f(rhs.x)).powi(2) + (f(lhs.y) - f(rhs.y)).powi(2) + (f(lhs.z) - f(rhs.z)).powi(2)).sqrt();
            Tup(vec![I(ceil_i(err / (eps * size.max(1.0e-300)))), B(true)])
        }
        // C10 at the ends of the field-of-view range: fovy = 1e-6 .. pi - 1e-6 is valid; the top edge of the near rectangle
        // (height n tan(fovy/2)) goes to y = +1 and the right edge (aspect times that) to x = +1.  <<built ?, y, x>> in eps
        ("fov_proj", [T(ctor), I(fc), N(n), N(fa)]) => {
            let pi = std::f64::consts::PI;
            let table: &[f64] = &[1.0e-6, 1.0e-3, 0.5, pi - 1.0e-3, pi - 1.0e-6, 3.0];
            let fov = table[(*fc as usize) % table.len()];
            let c = |x: f64| -> S { NumCast::from(x).unwrap() };
            let asp = 1.5f64;
            let m: Matrix4<S> = match ctor.as_str() {
                "perspective" => cgmath::perspective(Rad(c(fov)), c(asp), *n, *fa),
                "perspective_deg" => cgmath::perspective(Deg(c(fov.to_degrees())), c(asp), *n, *fa),
                "perspective_fov" => PerspectiveFov { fovy: Rad(c(fov)), aspect: c(asp), near: *n, far: *fa }.into(),
                _ => return None,
            };
            // the tangent of the half angle as the scalar type sees the angle
            let half: S = c(fov) / c(2.0);
            let t = if ctor == "perspective_deg" { let r: Rad<S> = Deg(c(fov.to_degrees())).into(); f((r.0 / c(2.0)).tan()) } else { f(half.tan()) };
            let nn = f(*n);
            let h = m * Vector4::new(c(asp * nn * t), c(nn * t), -*n, S::one());
            Tup(vec![B(true), I(ceil_i((f(h.y) / f(h.w) - 1.0).abs() / eps)), I(ceil_i((f(h.x) / f(h.w) - 1.0).abs() / eps))])
        }
        // C02 next to singular: the last column of the exact invertible matrix M is replaced natively by
        // (first column + half the second) + g * (last column); by multilinearity the determinant is g det(M).
        // <<| det - g det M | in units of eps * n! * max|entry|^n, an inverse exists, residual of M inv(M) per unit of condition>>
        ("near_sing_proj", [mv, I(gc)]) => {
            let table: &[f64] = &[1.0e-3, 1.0e-6, 1.0e-9, 1.0e-12];
            let g = table[(*gc as usize) % table.len()];
            let gs: S = NumCast::from(g).unwrap();
            let half: S = NumCast::from(0.5f64).unwrap();
            let (d0, d1, amax, n, resid, some): (f64, f64, f64, i32, f64, bool) = match mv {
                M2(m) => { let mut a = *m; a.y = a.x + m.y * gs; let i = a.invert();
                    let am = maxabs(&m2v(&a).iter().map(|x| f(*x)).collect::<Vec<f64>>());
                    let rs = match &i { Some(i) => { let p = m2v(&(a * *i)); let im = maxabs(&m2v(i).iter().map(|x| f(*x)).collect::<Vec<f64>>());
                        (0..4).map(|j| (f(p[j]) - if j % 3 == 0 { 1.0 } else { 0.0 }).abs()).fold(0.0f64, f64::max) / (eps * am * im * 2.0) } None => 0.0 };
                    (f(m.determinant()), f(a.determinant()), am, 2, rs, i.is_some()) }
                M3(m) => { let mut a = *m; a.z = a.x + m.y * half + m.z * gs; let i = a.invert();
                    let am = maxabs(&m3v(&a).iter().map(|x| f(*x)).collect::<Vec<f64>>());
                    let rs = match &i { Some(i) => { let p = m3v(&(a * *i)); let im = maxabs(&m3v(i).iter().map(|x| f(*x)).collect::<Vec<f64>>());
                        (0..9).map(|j| (f(p[j]) - if j % 4 == 0 { 1.0 } else { 0.0 }).abs()).fold(0.0f64, f64::max) / (eps * am * im * 3.0) } None => 0.0 };
                    (f(m.determinant()), f(a.determinant()), am, 3, rs, i.is_some()) }
                M4(m) => { let mut a = *m; a.w = a.x + m.y * half + m.w * gs; let i = a.invert();
                    let am = maxabs(&m4v(&a).iter().map(|x| f(*x)).collect::<Vec<f64>>());
                    let rs = match &i { Some(i) => { let p = m4v(&(a * *i)); let im = maxabs(&m4v(i).iter().map(|x| f(*x)).collect::<Vec<f64>>());
                        (0..16).map(|j| (f(p[j]) - if j % 5 == 0 { 1.0 } else { 0.0 }).abs()).fold(0.0f64, f64::max) / (eps * am * im * 4.0) } None => 0.0 };
                    (f(m.determinant()), f(a.determinant()), am, 4, rs, i.is_some()) }
                _ => return None,
            };
            let fact = [1.0, 1.0, 2.0, 6.0, 24.0][n as usize];
            Tup(vec![I(ceil_i((d1 - g * d0).abs() / (eps * fact * amax.powi(n)))), B(some), I(ceil_i(resid))])
        }
        // C12, centroid of more points than a single-precision count can represent: n = 2^24 + 1 copies of the exact integer point
        // p (|coordinates| <= 1000, the model checks that); the sum n p is exact in double precision, so the centroid — the sum of
        // the position vectors divided by n — is p bit for bit.  <<centroid == p, n>>.  Double precision only (in single precision
        // the running sum itself rounds beyond 2^24)
        ("centroid_big_proj", [pv]) => {
            if eps > 1.0e-10 { return None; }
            let n: usize = (1 << 24) + 1;
            let same = match pv {
                P1(p) => { let ps = vec![*p; n]; Point1::centroid(&ps) == *p }
                P2(p) => { let ps = vec![*p; n]; Point2::centroid(&ps) == *p }
                _ => return None,
            };
            Tup(vec![B(same), I(n as i64)])
        }
        // C02 with a SUBNORMAL determinant ("tiny but non-zero" at the very end of the range): the exact monomial matrix M (one
        // non-zero entry per column, each +-1, +-2 or +-1/2 — the model checks that) is scaled natively by 2^-k, k chosen per
        // dimension and scalar type so that the determinant is a power of two inside the subnormal range.  Every product is an
        // exact power of two and every sum has a single non-zero term, so nothing rounds: the determinant is the scaled exact
        // one, an inverse exists (det # 0), its entries are the reciprocals, and M inv(M) = inv(M) M = I bit for bit.
        // <<determinant exact, subnormal and non-zero; an inverse exists; inverse exact both sides>>.  Dimensions 2 and 3
        // (Matrix4::invert multiplies by 1/det, which overflows for every determinant below 2^-1022 / 2^-126 on the unchanged
        // tree: DESIGN section 12).  route 1 = Transform::inverse_transform (Matrix3)
        ("subnormal_det_proj", [mv, I(route)]) => {
            let is32 = eps > 1.0e-10;
            let two: S = NumCast::from(2.0f64).unwrap();
            let (n, k): (usize, i32) = match mv { M2(_) => (2, if is32 { 69 } else { 524 }), M3(_) => (3, if is32 { 46 } else { 349 }), _ => return None };
            let s = two.powi(-k);
            let sf = f(s);
            let tiny = if is32 { f32::MIN_POSITIVE as f64 } else { f64::MIN_POSITIVE };
            // (entries column-major as f64, determinant before and after, inverse column-major)
            let (e, d0, d1, inv): (Vec<f64>, f64, f64, Option<Vec<f64>>) = match mv {
                M2(m) => { let a = *m * s; (m2v(&a).iter().map(|x| f(*x)).collect(), f(m.determinant()), f(a.determinant()), a.invert().map(|i| m2v(&i).iter().map(|x| f(*x)).collect())) }
                M3(m) => { let a = *m * s;
                    let i = if *route == 1 { <Matrix3<S> as Transform<Point2<S>>>::inverse_transform(&a) } else { a.invert() };
                    (m3v(&a).iter().map(|x| f(*x)).collect(), f(m.determinant()), f(a.determinant()), i.map(|i| m3v(&i).iter().map(|x| f(*x)).collect())) }
                _ => return None,
            };
            let mut want = d0; for _ in 0..n { want *= sf; }
            let det_ok = d1 != 0.0 && d1.abs() < tiny && d1 == want;
            let exact = match &inv { None => false, Some(iv) => {
                let at = |m: &Vec<f64>, c: usize, r: usize| m[c * n + r];
                let mut ok = true;
                for c in 0..n { for r in 0..n {
                    // reciprocal entries: inv[r][c] = 1 / a[c][r] where a[c][r] # 0, zero elsewhere
                    let w = if at(&e, c, r) != 0.0 { 1.0 / at(&e, c, r) } else { 0.0 };
                    ok &= at(iv, r, c) == w;
                    let p1: f64 = (0..n).map(|j| at(&e, j, r) * at(iv, c, j)).sum();
                    let p2: f64 = (0..n).map(|j| at(iv, j, r) * at(&e, c, j)).sum();
                    let id = if c == r { 1.0 } else { 0.0 };
                    ok &= p1 == id && p2 == id;
                } }
                ok } };
            Tup(vec![B(det_ok), B(inv.is_some()), B(exact)])
        }
        // C06 with an axis a hair off a coordinate axis: n' = n cos(tau) + m sin(tau) (n, m exact orthonormal, tau = 1e-9 .. 1e-3)
        // is built natively; everything else as small_rot_proj (the reference uses the axis actually built)
        ("tilt_rot_proj", [T(ty), T(route), V3(n), V3(m), V3(v), I(dc), I(tc)]) => {
            let table: &[f64] = &[1.0e-9, 1.0e-8, 1.0e-6, 1.0e-3];
            let tau: S = NumCast::from(table[(*tc as usize) % table.len()]).unwrap();
            let n2 = *n * tau.cos() + *m * tau.sin();
            let n2 = n2 / n2.magnitude();
            return exec_proj::<S>("small_rot_proj", fm, &[T(ty.clone()), T(route.clone()), V3(n2), V3(*v), I(*dc)]);
        }
        // C09 in two dimensions over magnitudes: dir and up scaled natively by 10^de and 10^ue; the matrix has orthonormal
        // columns, the first along dir, the second on the side of up.  <<orthonormality, first column off dir, side>> in eps / sign
        ("look2_mag_proj", [T(kind), V2(d0), V2(u0), I(ue), I(de)]) => {
            let ten: S = NumCast::from(10.0f64).unwrap();
            let (dir, up) = (*d0 * ten.powi(*de as i32), *u0 * ten.powi(*ue as i32));
            let m: Matrix2<S> = match kind.as_str() {
                "Matrix2" => Matrix2::look_at(dir, up),
                "Basis2" => basis2_mat(&<Basis2<S> as Rotation>::look_at(dir, up)),
                _ => return None,
            };
            let c = [[f(m.x.x), f(m.x.y)], [f(m.y.x), f(m.y.y)]];
            let mut ortho = 0.0f64;
            for i in 0..2 { for j in 0..2 { let e: f64 = (0..2).map(|k| c[i][k] * c[j][k]).sum::<f64>() - if i == j { 1.0 } else { 0.0 }; ortho = ortho.max(e.abs()); } }
            let (dx, dy) = (f(dir.x), f(dir.y));
            let dn = (dx * dx + dy * dy).sqrt().max(1.0e-300);
            let off = ((c[0][0] - dx / dn).powi(2) + (c[0][1] - dy / dn).powi(2)).sqrt();
            let side = c[1][0] * f(up.x) + c[1][1] * f(up.y);
            Tup(vec![I(ceil_i(ortho / eps)), I(ceil_i(off / eps)), I(if side >= 0.0 { 1 } else { -1 })])
        }
        // C10, planar with a focal point very far away (tiny fovy, large height): the homogeneous w still vanishes at the
        // focal point z = +(h/2) cot(fovy/2), and the window of height h at z = 0 goes to y = +-1.  <<built, |w| at the focal point, y>> in eps
        ("planar_far_proj", [I(fc), I(hc), N(n), N(fa)]) => {
            let fovs: &[f64] = &[1.0e-3, 1.0e-6, 1.0e-9, 1.0e-12];
            let hs: &[f64] = &[1.0, 1.0e3, 1.0e6];
            let (fov, h) = (fovs[(*fc as usize) % fovs.len()], hs[(*hc as usize) % hs.len()]);
            let c = |x: f64| -> S { NumCast::from(x).unwrap() };
            let m: Matrix4<S> = cgmath::planar(Rad(c(fov)), c(1.5), c(h), *n, *fa);
            let half: S = c(fov) / c(2.0);
            let d = h / 2.0 / f(half.tan());
            let wf = m * Vector4::new(S::zero(), S::zero(), c(d), S::one());
            let top = m * Vector4::new(S::zero(), c(h / 2.0), S::zero(), S::one());
            Tup(vec![B(true), I(ceil_i(f(wf.w).abs() / eps)), I(ceil_i((f(top.y) / f(top.w) - 1.0).abs() / eps))])
        }
        // C14 far outside [0, 1]: lerp(a, b, t) = a + (b - a) t for every amount t; b = a (1 + 1e-9) built natively, t up to 1e12
        ("lerp_far_proj", [x, I(tc)]) => {
            let ts: &[f64] = &[1.0e3, 1.0e6, 1.0e9, 1.0e12, -1.0e6];
            let t = ts[(*tc as usize) % ts.len()];
            let tt: S = NumCast::from(t).unwrap();
            let k: S = NumCast::from(1.0 + 1.0e-9f64).unwrap();
            let (av, bv, rv): (Vec<f64>, Vec<f64>, Vec<f64>) = match x {
                V3(a) => { let b = *a * k; let r = a.lerp(b, tt); (vec![f(a.x), f(a.y), f(a.z)], vec![f(b.x), f(b.y), f(b.z)], vec![f(r.x), f(r.y), f(r.z)]) }
                V2(a) => { let b = *a * k; let r = a.lerp(b, tt); (vec![f(a.x), f(a.y)], vec![f(b.x), f(b.y)], vec![f(r.x), f(r.y)]) }
                Q(a) => { let b = *a * k; let r = a.lerp(b, tt); (qv(a).to_vec(), qv(&b).to_vec(), qv(&r).to_vec()) }
                M2(a) => { let b = *a * k; let r = a.lerp(b, tt); (m2v(a).iter().map(|x| f(*x)).collect(), m2v(&b).iter().map(|x| f(*x)).collect(), m2v(&r).iter().map(|x| f(*x)).collect()) }
                _ => return None,
            };
            // b - a is exact (the operands are within a factor of two of each other); the rest is one product and one sum
            let dev = (0..av.len()).map(|i| { let e = av[i] + (bv[i] - av[i]) * t; (rv[i] - e).abs() / (eps * (av[i].abs() + ((bv[i] - av[i]) * t).abs()).max(1.0e-300)) }).fold(0.0f64, f64::max);
            Tup(vec![I(ceil_i(dev)), B(true)])
        }
        // C18 on matrices that are nearly symmetric / diagonal / the identity: element (c, r) of the exact matrix, scaled by
        // 10^e, is moved natively by a few ulps or by a small absolute amount; the predicate must equal the conjunction of the
        // scalar ulps-comparisons the property names.  <<agrees ?>>
        ("pred_near_proj", [T(pred), mv, I(cc), I(rr), I(code), I(e)]) => {
            let ten: S = NumCast::from(10.0f64).unwrap();
            let sc = ten.powi(*e as i32);
            let bump = |x: S| -> S { match code { 0 => x + x.abs() * S::epsilon() * NumCast::from(2.0f64).unwrap(), 1 => x + x.abs() * S::epsilon() * NumCast::from(16.0f64).unwrap(),
                                                  2 => x + NumCast::from(1.0e-9f64).unwrap(), 3 => x + NumCast::from(3.0e-7f64).unwrap(), 4 => x + S::epsilon() / NumCast::from(4.0f64).unwrap(), _ => x } };
            let ue = |a: S, b: S| a.ulps_eq(&b, S::default_epsilon(), S::default_max_ulps());
            let (got, want): (bool, bool) = match mv {
                M4(m0) => { let mut m = *m0 * sc; m[*cc as usize][*rr as usize] = bump(m[*cc as usize][*rr as usize]);
                    let z = S::zero();
                    match pred.as_str() {
                        "is_symmetric" => (m.is_symmetric(), (0..4).all(|c| (0..4).all(|r| ue(m[c][r], m[r][c])))),
                        "is_diagonal" => (m.is_diagonal(), (0..4).all(|c| (0..4).all(|r| c == r || ue(m[c][r], z)))),
                        _ => return None } }
                M3(m0) => { let mut m = *m0 * sc; m[*cc as usize][*rr as usize] = bump(m[*cc as usize][*rr as usize]);
                    let z = S::zero();
                    match pred.as_str() {
                        "is_symmetric" => (m.is_symmetric(), (0..3).all(|c| (0..3).all(|r| ue(m[c][r], m[r][c])))),
                        "is_diagonal" => (m.is_diagonal(), (0..3).all(|c| (0..3).all(|r| c == r || ue(m[c][r], z)))),
                        _ => return None } }
                M2(m0) => { let mut m = *m0 * sc; m[*cc as usize][*rr as usize] = bump(m[*cc as usize][*rr as usize]);
                    let z = S::zero();
                    match pred.as_str() {
                        "is_symmetric" => (m.is_symmetric(), (0..2).all(|c| (0..2).all(|r| ue(m[c][r], m[r][c])))),
                        "is_diagonal" => (m.is_diagonal(), (0..2).all(|c| (0..2).all(|r| c == r || ue(m[c][r], z)))),
                        _ => return None } }
                _ => return None,
            };
            Tup(vec![B(got == want)])
        }
        // C08: inverse_transform_vector agrees with inverse_transform, for any invertible matrix - projective ones included.
        // <<both Some / both None, |itv(v) - inv.transform_vector(v)| relative in eps>>
        ("inv_vec_agree_proj", [mv, V3(v)]) => {
            let (a, b): (Option<Vector3<S>>, Option<Vector3<S>>) = match mv {
                M4(m) => (m.inverse_transform_vector(*v), Transform::<Point3<S>>::inverse_transform(m).map(|i| i.transform_vector(*v))),
                M3(m) => (<Matrix3<S> as Transform<Point3<S>>>::inverse_transform_vector(m, *v), <Matrix3<S> as Transform<Point3<S>>>::inverse_transform(m).map(|i| <Matrix3<S> as Transform<Point3<S>>>::transform_vector(&i, *v))),
                _ => return None,
            };
            match (a, b) {
                (Some(x), Some(y)) => { let n = (f(y.x).powi(2) + f(y.y).powi(2) + f(y.z).powi(2)).sqrt().max(1.0e-300);
                    let e = ((f(x.x) - f(y.x)).powi(2) + (f(x.y) - f(y.y)).powi(2) + (f(x.z) - f(y.z)).powi(2)).sqrt();
                    Tup(vec![B(true), I(ceil_i(e / (n * eps)))]) }
                (None, None) => Tup(vec![B(true), I(0)]),
                _ => Tup(vec![B(false), I(0)]),
            }
        }
        // C13 inverse functions next to the ends of their domain and next to zero: asin, acos, atan of a against the
        // functions of the number, relative error in eps (absolute next to a zero of the function).  <<asin, acos, atan>>
        ("inv_trig_proj", [T(unit), I(code), B(neg)]) => {
            let vals: &[f64] = &[0.9999, 1.0 - 1.0e-6, 1.0 - 1.0e-10, 1.0 - 2.220446049250313e-16, 0.5, 1.0e-8, 0.3, 0.999];
            let a = vals[(*code as usize) % vals.len()] * if *neg { -1.0 } else { 1.0 };
            let x: S = NumCast::from(a).unwrap();
            let xa = f(x);
            let deg = unit == "Deg";
            let conv = |r: f64| if deg { r.to_degrees() } else { r };
            let (s1, c1, t1) = if deg { (f(Deg::<S>::asin(x).0), f(Deg::<S>::acos(x).0), f(Deg::<S>::atan(x).0)) } else { (f(Rad::<S>::asin(x).0), f(Rad::<S>::acos(x).0), f(Rad::<S>::atan(x).0)) };
            let rel = |v: f64, r: f64| ceil_i((v - r).abs() / (eps * r.abs().max(1.0e-300)));
            Tup(vec![I(rel(s1, conv(xa.asin()))), I(if xa >= 1.0 { 0 } else { rel(c1, conv(xa.acos())) }), I(rel(t1, conv(xa.atan())))])
        }
        // C17 bit for bit: every spelling of an operator (by value, by reference on either side, compound assignment) gives
        // the same native result on operands that are not exactly representable.  <<all forms agree ?>>
        ("forms_eq_proj", [T(inner), rest @ ..]) => {
            let third: S = NumCast::from(1.0f64 / 3.0).unwrap();
            let args: Vec<Val<S>> = rest.iter().map(|v| match v { N(x) => N(*x + third * S::epsilon()), other => scale_val(other, S::one() + third) }).collect();
            let mut outs: Vec<Vec<f64>> = Vec::new();
            for form in ["vv", "rv", "vr", "rr", "as", "v", "r", "m"] {
                if let Some(r) = <S as crate::machine::Exec>::exec(inner, form, &args) {
                    if let Some(c) = crate::exec_misc::comps(&r) { outs.push(c.iter().map(|x| f(*x)).collect()); }
                }
            }
            if outs.len() < 2 { return None; }
            let same = outs.iter().all(|o| o.len() == outs[0].len() && o.iter().zip(outs[0].iter()).all(|(a, b)| a == b || (a.is_nan() && b.is_nan())));
            Tup(vec![B(same), I(outs.len() as i64)])
        }
        // C09 with up a hair off the viewing direction: up' = dir + u0 * 10^ue (still not parallel).  As look_proj, with the
        // deviations multiplied by the sine of the angle between up' and dir
        ("look_near_proj", [T(inner), T(form), I(ue), rest @ ..]) => {
            let ten: S = NumCast::from(10.0f64).unwrap();
            let mut args: Vec<Val<S>> = rest.to_vec();
            let n = args.len();
            let dir: Vector3<S> = match (&args[n - 2], n >= 3) { (V3(d), _) => *d, (P3(c), true) => { if let P3(e) = args[n - 3] { *c - e } else { return None; } } _ => return None };
            let u0 = if let V3(u) = args[n - 1] { u } else { return None; };
            let up = dir + u0 * ten.powi(*ue as i32);
            args[n - 1] = V3(up);
            let sin = f(dir.cross(up).magnitude()) / (f(dir.magnitude()) * f(up.magnitude())).max(1.0e-300);
            let mut a2: Vec<Val<S>> = vec![T(inner.clone()), T(form.clone())];
            a2.extend(args);
            // every clause loses a factor 1 / sin(angle(up, dir)) in the unmodified code too (the side axis is a normalised
            // cross product of nearly parallel vectors): the three deviations are reported per unit of that conditioning
            return match exec_proj::<S>("look_proj", fm, &a2)? { Tup(mut c) => { for i in [0usize, 2, 4, 6] { if let I(x) = c[i] { c[i] = I(ceil_i(x as f64 * sin)); } } Some(Tup(c)) } other => Some(other) };
        }
        // C10 with far many orders of magnitude beyond near: far = near * ratio, ratio = 1e3 .. 1e12; the near plane still
        // goes to -1 and the far plane to +1, to a few eps (no 1/g amplification here).  <<built ?, near plane, far plane>> in eps
        ("deep_proj", [T(ctor), N(n), I(rc)]) => {
            let table: &[f64] = &[1.0e3, 1.0e6, 1.0e9, 1.0e12];
            let ratio = table[(*rc as usize) % table.len()];
            let fa: S = *n * NumCast::from(ratio).unwrap();
            let c = |x: f64| -> S { NumCast::from(x).unwrap() };
            let m: Matrix4<S> = match ctor.as_str() {
                "perspective" => cgmath::perspective(Deg(c(60.0)), c(1.5), *n, fa),
                "perspective_fov" => PerspectiveFov { fovy: Rad(c(1.0)), aspect: c(0.75), near: *n, far: fa }.into(),
                "frustum" => cgmath::frustum(c(-1.0), c(2.0), c(-1.0), c(1.5), *n, fa),
                "perspective_struct" => Perspective { left: c(-1.0), right: c(2.0), bottom: c(-1.0), top: c(1.5), near: *n, far: fa }.into(),
                "ortho" => cgmath::ortho(c(-1.0), c(2.0), c(-1.0), c(1.5), *n, fa),
                "planar" => cgmath::planar(Deg(c(60.0)), c(1.5), c(2.0), *n, fa),
                _ => return None,
            };
            let z = |depth: S| -> f64 { let h = m * Vector4::new(S::zero(), S::zero(), -depth, S::one()); f(h.z) / f(h.w) };
            Tup(vec![B(true), I(ceil_i((z(*n) + 1.0).abs() / eps)), I(ceil_i((z(fa) - 1.0).abs() / eps))])
        }
        // C11 angle between nearly parallel / antiparallel vectors (atan2-based: 2-D and 3-D): v = +-cos(d) u + sin(d) m with
        // u, m exact orthonormal, scaled by s1, s2; | angle - d | (or pi - d) in millionths of d, and the symmetric call
        ("angle_near_proj", [V3(u), V3(m), I(dc), B(anti), N(s1), N(s2)]) => {
            let table: &[f64] = &[1.0e-3, 1.0e-5, 1.0e-7, 1.0e-9];
            let d = table[(*dc as usize) % table.len()];
            let ds: S = NumCast::from(d).unwrap();
            let v = ((if *anti { -*u } else { *u }) * ds.cos() + *m * ds.sin()) * *s2;
            let uu = *u * *s1;
            let (a1, a2) = (f(uu.angle(v).0), f(v.angle(uu).0));
            let expect = if *anti { std::f64::consts::PI - d } else { d };
            let dev = |a: f64| if *anti { ceil_i(((std::f64::consts::PI - a) - d).abs() / d * 1.0e6) } else { ceil_i((a - expect).abs() / d * 1.0e6) };
            Tup(vec![I(dev(a1)), I(dev(a2))])
        }
        ("angle_near_proj", [V2(u), I(dc), B(anti), B(cw), N(s1), N(s2)]) => {
            let table: &[f64] = &[1.0e-3, 1.0e-5, 1.0e-7, 1.0e-9];
            let d = table[(*dc as usize) % table.len()];
            let ds: S = NumCast::from(d).unwrap();
            let m = if *cw { Vector2::new(u.y, -u.x) } else { Vector2::new(-u.y, u.x) };
            let v = ((if *anti { -*u } else { *u }) * ds.cos() + m * ds.sin()) * *s2;
            let uu = *u * *s1;
            // signed: counter-clockwise positive; from u to v
            let sg = if *cw { -1.0 } else { 1.0 };
            let expect = if *anti { sg * (std::f64::consts::PI - d) } else { sg * d };
            let (a1, a2) = (f(uu.angle(v).0), f(v.angle(uu).0));
            let dev = |a: f64, e: f64| if *anti { ceil_i(((std::f64::consts::PI - a.abs()) - d).abs() / d * 1.0e6) + if a * e < 0.0 { 1 << 20 } else { 0 } } else { ceil_i((a - e).abs() / d * 1.0e6) };
            Tup(vec![I(dev(a1, expect)), I(dev(a2, -expect))])
        }
        // C14 endpoints for nearly equal / nearly opposite quaternions: b = +-(a * (cos d/2 + sin d/2 n)) built natively;
        // nlerp / slerp give a at t = 0 and +-b at t = 1 (distance in eps), and a unit quaternion half way
        ("lerp_end_proj", [T(which), Q(a), V3(n), I(dc), B(opp)]) => {
            let table: &[f64] = &[1.0e-3, 1.0e-6, 1.0e-8, 1.0e-9, 1.0e-12];
            let d = table[(*dc as usize) % table.len()];
            let h: S = NumCast::from(d / 2.0).unwrap();
            let mut b = *a * Quaternion::from_sv(h.cos(), *n * h.sin());
            b = b / b.magnitude();
            if *opp { b = -b; }
            let g = |t: f64| -> Quaternion<S> { let ts: S = NumCast::from(t).unwrap(); if which == "nlerp" { a.nlerp(b, ts) } else { a.slerp(b, ts) } };
            let (r0, r1, rh) = (qv(&g(0.0)), qv(&g(1.0)), qv(&g(0.5)));
            let (av, bv) = (qv(a), qv(&b));
            let dist = |x: &[f64; 4], y: &[f64; 4], sg: f64| (0..4).map(|i| (x[i] - sg * y[i]).powi(2)).sum::<f64>().sqrt();
            let e1 = dist(&r1, &bv, 1.0).min(dist(&r1, &bv, -1.0));
            Tup(vec![I(ceil_i(dist(&r0, &av, 1.0) / eps)), I(ceil_i(e1 / eps)), I(ceil_i((norm4(&rh) - 1.0).abs() / eps))])
        }
        // C15 close to (anti)parallel.  a is a unit vector, n a unit vector perpendicular to it (both exact rationals);
        // b = +-cos(d) a + sin(d) (n x a) is built natively, at angle d (or pi - d) from a, for d from a table well above the
        // tolerated 1e-7 rad (1e-4 rad for from_arc).  The recorder measures |r(a) - b| in millionths of d, the deviation of
        // the result from a unit quaternion / orthonormal basis in machine epsilons, and (quaternions) how far the rotation
        // axis is from perpendicular to a, in 1e-9.
        ("arc_proj", [T(kind), V3(a), V3(n), I(dc), B(anti), N(s1), N(s2)]) => {
            let table: &[f64] = if kind.starts_with("arc") { &[1.0e-2, 1.0e-3, 2.0e-4] } else { &[1.0e-3, 1.0e-4, 1.0e-5, 1.0e-6] };
            let d = table[(*dc as usize) % table.len()];
            let ds: S = NumCast::from(d).unwrap();
            let m = n.cross(*a);
            let b = (if *anti { -*a } else { *a }) * ds.cos() + m * ds.sin();
            let b = b / b.magnitude();
            let (au, bu) = ([f(a.x), f(a.y), f(a.z)], [f(b.x), f(b.y), f(b.z)]);
            let (ra, unit_dev, axis_dev): (Vector3<S>, i64, i64) = match kind.as_str() {
                "quat" | "arc" => {
                    let q = if kind == "quat" { <Quaternion<S> as Rotation>::between_vectors(*a, b) } else { Quaternion::from_arc(*a * *s1, b * *s2, None) };
                    let qq = qv(&q);
                    let vn = (qq[1] * qq[1] + qq[2] * qq[2] + qq[3] * qq[3]).sqrt().max(1.0e-300);
                    let ax = ((qq[1] * au[0] + qq[2] * au[1] + qq[3] * au[2]) / vn).abs();
                    (q.rotate_vector(*a), ceil_i((norm4(&qq) - 1.0).abs() / eps), ceil_i(ax / 1.0e-9))
                }
                "basis3" => {
                    let r = <Basis3<S> as Rotation>::between_vectors(*a, b);
                    let mm = basis3_mat(&r);
                    let cols = [[f(mm.x.x), f(mm.x.y), f(mm.x.z)], [f(mm.y.x), f(mm.y.y), f(mm.y.z)], [f(mm.z.x), f(mm.z.y), f(mm.z.z)]];
                    let mut ortho = 0.0f64;
                    for i in 0..3 { for j in 0..3 {
                        let e: f64 = (0..3).map(|k| cols[i][k] * cols[j][k]).sum::<f64>() - if i == j { 1.0 } else { 0.0 };
                        ortho = ortho.max(e.abs());
                    } }
                    (r.rotate_vector(*a), ceil_i(ortho / eps), 0)
                }
                _ => return None,
            };
            let err = ((f(ra.x) - bu[0]).powi(2) + (f(ra.y) - bu[1]).powi(2) + (f(ra.z) - bu[2]).powi(2)).sqrt();
            Tup(vec![I(ceil_i(err / d * 1.0e6)), I(unit_dev), I(axis_dev)])
        }
        ("arc_proj", [T(kind), V2(a), I(dc), B(anti), B(cw)]) if kind == "basis2" => {
            let table: &[f64] = &[1.0e-3, 1.0e-4, 1.0e-5, 1.0e-6];
            let d = table[(*dc as usize) % table.len()];
            let ds: S = NumCast::from(d).unwrap();
            let m = if *cw { Vector2::new(a.y, -a.x) } else { Vector2::new(-a.y, a.x) };
            let b = (if *anti { -*a } else { *a }) * ds.cos() + m * ds.sin();
            let b = b / b.magnitude();
            let r = <Basis2<S> as Rotation>::between_vectors(*a, b);
            let ra = r.rotate_vector(*a);
            let mm = basis2_mat(&r);
            let cols = [[f(mm.x.x), f(mm.x.y)], [f(mm.y.x), f(mm.y.y)]];
            let mut ortho = 0.0f64;
            for i in 0..2 { for j in 0..2 {
                let e: f64 = (0..2).map(|k| cols[i][k] * cols[j][k]).sum::<f64>() - if i == j { 1.0 } else { 0.0 };
                ortho = ortho.max(e.abs());
            } }
            let err = ((f(ra.x) - f(b.x)).powi(2) + (f(ra.y) - f(b.y)).powi(2)).sqrt();
            Tup(vec![I(ceil_i(err / d * 1.0e6)), I(ceil_i(ortho / eps)), I(0)])
        }
        // Deg -> Rad -> Deg (or the reverse) relative error in units of the scalar's epsilon
        ("unit_roundtrip", [T(unit), N(x)]) => {
            let back: S = if unit == "Deg" { let r: Rad<S> = Deg(*x).into(); let d: Deg<S> = r.into(); d.0 } else { let d: Deg<S> = Rad(*x).into(); let r: Rad<S> = d.into(); r.0 };
            let (x0, x1) = (f(*x), f(back));
            let rel = if x0 == 0.0 { (x1 - x0).abs() } else { ((x1 - x0) / x0).abs() };
            I(ceil_i(rel / eps))
        }
        // native range membership of the normalisers, and "differs by a whole number of turns" (deviation in 1e-6 turns)
        ("normalize_native", [T(unit), N(x)]) => {
            let (n, s, full, half): (f64, f64, f64, f64) = if unit == "Deg" {
                (f(Deg(*x).normalize().0), f(Deg(*x).normalize_signed().0), f(Deg::<S>::full_turn().0), f(Deg::<S>::turn_div_2().0))
            } else {
                (f(Rad(*x).normalize().0), f(Rad(*x).normalize_signed().0), f(Rad::<S>::full_turn().0), f(Rad::<S>::turn_div_2().0))
            };
            let x0 = f(*x);
            let turns = |r: f64| { let k = (x0 - r) / full; ceil_i((k - k.round()).abs() / 1.0e-6) };
            // the remainder is exact: x - k * full_turn (one rounding, fused) is the result itself
            let exact = |r: f64| { let k = ((x0 - r) / full).round(); ceil_i(((-k).mul_add(full, x0) - r).abs() / (eps * full)) };
            Tup(vec![B(n >= 0.0 && n <= full), B(s >= -half && s <= half), I(turns(n)), I(turns(s)), I(exact(n)), I(exact(s))])
        }
        ("turn_div_exact", [T(unit), I(k)]) => {
            let kk: S = NumCast::from(*k).unwrap();
            B(if unit == "Deg" {
                let d = match k { 2 => Deg::<S>::turn_div_2(), 3 => Deg::<S>::turn_div_3(), 4 => Deg::<S>::turn_div_4(), 6 => Deg::<S>::turn_div_6(), _ => return None };
                d * kk == Deg::<S>::full_turn()
            } else {
                let d = match k { 2 => Rad::<S>::turn_div_2(), 3 => Rad::<S>::turn_div_3(), 4 => Rad::<S>::turn_div_4(), 6 => Rad::<S>::turn_div_6(), _ => return None };
                d * kk == Rad::<S>::full_turn()
            })
        }
        // full turn: 2 pi rad = 360 deg (difference in eps of the scalar)
        ("full_turn_value", [T(unit)]) => {
            let (v, want) = if unit == "Deg" { (f(Deg::<S>::full_turn().0), 360.0) } else { (f(Rad::<S>::full_turn().0), 2.0 * std::f64::consts::PI) };
            I(ceil_i(((v - want) / want).abs() / eps))
        }
        // Euler extraction: x == 0 ?, |y| == quarter turn ?, y sign, max element difference of the rebuilt rotation in 1/1000, ranges respected?
        ("euler_proj", [Q(q)]) => {
            let e: Euler<Rad<S>> = Euler::from(*q);
            let (m0, m1): (Matrix3<S>, Matrix3<S>) = (Matrix3::from(*q), Matrix3::from(e));
            let mut md = 0.0f64;
            for c in 0..3 { for r in 0..3 { md = md.max((f(m0[c][r]) - f(m1[c][r])).abs()); } }
            let quarter = f(Rad::<S>::turn_div_4().0);
            let pi = f(Rad::<S>::turn_div_2().0);
            let (ex, ey, ez) = (f(e.x.0), f(e.y.0), f(e.z.0));
            let in_range = ex.abs() <= pi && ey.abs() <= quarter && ez.abs() <= pi * (if fm == "wide" { 2.0 } else { 1.0 });
            Tup(vec![B(ex == 0.0), B(ey.abs() == quarter), I(if ey > 0.0 { 1 } else if ey < 0.0 { -1 } else { 0 }), I(ceil_i(md * 1000.0)), B(in_range)])
        }
        _ => return None,
    })
}
