//! Seeded random program driver.  Programs are generated *by executing them* at a
//! generation scalar (Q for field programs, i64 for integer programs), so the
//! driver sees every intermediate value and can keep magnitudes inside the
//! model's 32-bit budget, avoid division by zero, and keep unsigned programs
//! non-negative.  The emitted programs are then executed again, independently,
//! at every scalar type listed in their "sc" field.
use crate::ang::Sym;
use crate::machine::{is_bad, run_call, Exec, Outcome, NREG};
use crate::q::Q;
use crate::sc::Sc;
use crate::val::*;
use cgmath::*;

pub struct Rng(pub u64);
impl Rng {
    pub fn next(&mut self) -> u64 {
        self.0 = self.0.wrapping_add(0x9E3779B97F4A7C15);
        let mut z = self.0;
        z = (z ^ (z >> 30)).wrapping_mul(0xBF58476D1CE4E5B9);
        z = (z ^ (z >> 27)).wrapping_mul(0x94D049BB133111EB);
        z ^ (z >> 31)
    }
    pub fn below(&mut self, n: usize) -> usize { (self.next() % n as u64) as usize }
    pub fn range(&mut self, lo: i64, hi: i64) -> i64 { lo + (self.next() % ((hi - lo + 1) as u64)) as i64 }
    pub fn chance(&mut self, num: u64, den: u64) -> bool { self.next() % den < num }
    pub fn pick<'a, T>(&mut self, xs: &'a [T]) -> &'a T { &xs[self.below(xs.len())] }
}

#[derive(Copy, Clone, PartialEq, Eq, Debug)]
pub enum Mode { Field, Ring, Int, Uint }
const MF: u8 = 1; const MR: u8 = 2; const MI: u8 = 4; const MU: u8 = 8;
const ALL: u8 = 15; const FR: u8 = 3; const FRI: u8 = 7;
fn mbit(m: Mode) -> u8 { match m { Mode::Field => MF, Mode::Ring => MR, Mode::Int => MI, Mode::Uint => MU } }

#[derive(Copy, Clone, PartialEq, Debug)]
pub enum AK {
    V, Vnz, Vp1, P, Pnz, M, Mnz, Quat, Qnz, S, Snz, Idx, I(i64, i64), Tv, Tp, Tm, Tq, TvP1,
    ManyV, ManyP1, ManyM, ManyQ, ManyS(usize), // variable arity tails
    V4w,   // Vector4 with non-zero w
}
use AK::*;

pub struct Sig {
    pub op: &'static str,
    pub args: &'static [AK],
    pub forms: &'static [&'static str],
    pub dims: &'static [usize],
    pub class: u8,
    pub modes: u8,
    pub fsafe: bool, // safe to replay at f64/f32 (no discontinuity that rounding could cross)
    pub prim: bool,  // needs a primitive scalar (scalar-on-the-left impls): not executable at Q
    pub props: &'static str,
}
const F4A: &[&str] = &["vv", "rv", "vr", "rr", "as"];
const F4: &[&str] = &["vv", "rv", "vr", "rr"];
const F2A: &[&str] = &["vv", "rv", "as"];
const FL: &[&str] = &["vv", "vr"];
const FEW: &[&str] = &["m", "as"];
const FM: &[&str] = &["m"];
const FVR: &[&str] = &["v", "r"];
const D14: &[usize] = &[1, 2, 3, 4];
const D13: &[usize] = &[1, 2, 3];
const D24: &[usize] = &[2, 3, 4];
macro_rules! sig { ($op:expr, $args:expr, $forms:expr, $dims:expr, $class:expr, $modes:expr, $fsafe:expr, $prim:expr, $props:expr) => {
    Sig { op: $op, args: $args, forms: $forms, dims: $dims, class: $class, modes: $modes, fsafe: $fsafe, prim: $prim, props: $props } } }

pub static SIGS: &[Sig] = &[
    // ---------------- vectors (C03, C17)
    sig!("add", &[V, V], F4A, D14, 1, ALL, true, false, "C03 C17"),
    sig!("sub", &[V, V], F4A, D14, 1, ALL, true, false, "C03 C17"),
    sig!("neg", &[V], &["v"], D14, 1, FRI, true, false, "C03 C17"),
    sig!("mul_s", &[V, S], F2A, D14, 2, ALL, true, false, "C03 C17"),
    sig!("div_s", &[V, Snz], F2A, D14, 2, MF | MI | MU, true, false, "C03 C17"),
    sig!("rem_s", &[V, Snz], F2A, D14, 2, ALL, false, false, "C03 C17"),
    sig!("s_mul", &[S, V], FL, D14, 2, ALL, true, true, "C17 C03"),
    sig!("s_div", &[S, Vnz], FL, D14, 2, MF | MI | MU, true, true, "C17 C03"),
    sig!("s_rem", &[S, Vnz], FL, D14, 2, ALL, false, true, "C17 C03"),
    sig!("add_ew", &[V, V], FEW, D14, 1, ALL, true, false, "C03 C17"),
    sig!("sub_ew", &[V, V], FEW, D14, 1, ALL, true, false, "C03 C17"),
    sig!("mul_ew", &[V, V], FEW, D14, 2, ALL, true, false, "C03 C17"),
    sig!("div_ew", &[V, Vnz], FEW, D14, 2, MF | MI | MU, true, false, "C03 C17"),
    sig!("rem_ew", &[V, Vnz], FEW, D14, 2, ALL, false, false, "C03 C17"),
    sig!("add_ew", &[V, S], FEW, D14, 1, ALL, true, false, "C03 C17"),
    sig!("sub_ew", &[V, S], FEW, D14, 1, ALL, true, false, "C03 C17"),
    sig!("mul_ew", &[V, S], FEW, D14, 2, ALL, true, false, "C03 C17"),
    sig!("div_ew", &[V, Snz], FEW, D14, 2, MF | MI | MU, true, false, "C03 C17"),
    sig!("rem_ew", &[V, Snz], FEW, D14, 2, ALL, false, false, "C03 C17"),
    sig!("dot", &[V, V], &["m", "free"], D14, 2, ALL, true, false, "C03"),
    sig!("mag2", &[V], FM, D14, 2, ALL, true, false, "C03 C11"),
    sig!("sum", &[V], FM, D14, 1, ALL, true, false, "C03"),
    sig!("product", &[V], FM, D14, 4, ALL, true, false, "C03"),
    sig!("distance2", &[V, V], FM, D14, 2, FRI, true, false, "C11 C03"),
    sig!("lerp", &[V, V, S], FM, D14, 2, FRI, true, false, "C14 C03"),
    sig!("project_on", &[V, Vnz], FM, D14, 3, MF | MI, true, false, "C11"),
    sig!("is_zero", &[V], FM, D14, 1, ALL, true, false, "C03 C18"),
    sig!("index", &[V, Idx], FM, D14, 1, ALL, true, false, "C16"),
    sig!("from_value", &[Tv, S], FM, D14, 1, ALL, true, false, "C03 C16"),
    sig!("zero", &[Tv], FM, D14, 1, ALL, true, false, "C03"),
    sig!("len", &[Tv], FM, D14, 1, ALL, true, false, "C16"),
    sig!("len", &[Tp], FM, D13, 1, ALL, true, false, "C16 C12"),
    sig!("iter_sum", &[Tv, ManyV], FVR, D14, 1, ALL, true, false, "C17 C03"),
    sig!("cross", &[V, V], FM, &[3], 2, ALL, true, false, "C03"),
    sig!("perp_dot", &[V, V], FM, &[2], 2, ALL, true, false, "C03"),
    sig!("extend", &[V, S], FM, &[2, 3], 1, ALL, true, false, "C16"),
    sig!("truncate", &[V], FM, &[3, 4], 1, ALL, true, false, "C16"),
    sig!("truncate_n", &[V, I(0, 3)], FM, &[4], 1, ALL, true, false, "C16"),
    sig!("unit", &[Tv, Idx], FM, D14, 1, ALL, true, false, "C03 C16"),
    sig!("vec_new", &[ManyS(0)], &["new", "free"], D14, 1, ALL, true, false, "C16"),
    // ---------------- points (C12, C17)
    sig!("add", &[P, V], F4A, D13, 1, ALL, true, false, "C12 C17"),
    sig!("sub", &[P, V], F4A, D13, 1, ALL, true, false, "C12 C17"),
    sig!("sub", &[P, P], F4, D13, 1, ALL, true, false, "C12 C17"),
    sig!("mul_s", &[P, S], F2A, D13, 2, ALL, true, false, "C12 C17"),
    sig!("div_s", &[P, Snz], F2A, D13, 2, MF | MI | MU, true, false, "C12 C17"),
    sig!("rem_s", &[P, Snz], F2A, D13, 2, ALL, false, false, "C12 C17"),
    sig!("s_mul", &[S, P], FL, D13, 2, ALL, true, true, "C17 C12"),
    sig!("s_div", &[S, Pnz], FL, D13, 2, MF | MI | MU, true, true, "C17 C12"),
    sig!("s_rem", &[S, Pnz], FL, D13, 2, ALL, false, true, "C17 C12"),
    sig!("add_ew", &[P, P], FEW, D13, 1, ALL, true, false, "C12"),
    sig!("sub_ew", &[P, P], FEW, D13, 1, ALL, true, false, "C12"),
    sig!("mul_ew", &[P, P], FEW, D13, 2, ALL, true, false, "C12"),
    sig!("div_ew", &[P, Pnz], FEW, D13, 2, MF | MI | MU, true, false, "C12"),
    sig!("rem_ew", &[P, Pnz], FEW, D13, 2, ALL, false, false, "C12"),
    sig!("add_ew", &[P, S], FEW, D13, 1, ALL, true, false, "C12"),
    sig!("sub_ew", &[P, S], FEW, D13, 1, ALL, true, false, "C12"),
    sig!("mul_ew", &[P, S], FEW, D13, 2, ALL, true, false, "C12"),
    sig!("div_ew", &[P, Snz], FEW, D13, 2, MF | MI | MU, true, false, "C12"),
    sig!("rem_ew", &[P, Snz], FEW, D13, 2, ALL, false, false, "C12"),
    sig!("dot", &[P, V], FM, D13, 2, ALL, true, false, "C12"),
    sig!("sum", &[P], FM, D13, 1, ALL, true, false, "C12"),
    sig!("product", &[P], FM, D13, 4, ALL, true, false, "C12"),
    sig!("distance2", &[P, P], FM, D13, 2, FRI, true, false, "C11 C12"),
    sig!("to_vec", &[P], FM, D13, 1, ALL, true, false, "C12"),
    sig!("from_vec", &[V], FM, D13, 1, ALL, true, false, "C12"),
    sig!("midpoint", &[P, P], FM, D13, 1, MF | MI, true, false, "C12"),
    sig!("centroid", &[P, ManyP1], FM, D13, 1, MF | MI | MU, true, false, "C12"),
    sig!("index", &[P, Idx], FM, D13, 1, ALL, true, false, "C16"),
    sig!("origin", &[Tp], FM, D13, 1, ALL, true, false, "C12"),
    sig!("from_value", &[Tp, S], FM, D13, 1, ALL, true, false, "C12 C16"),
    sig!("to_homogeneous", &[P], FM, &[3], 1, ALL, true, false, "C12"),
    sig!("from_homogeneous", &[V4w], FM, &[3], 2, MF, true, false, "C12"),
    sig!("pt_new", &[ManyS(0)], &["new", "free"], D13, 1, ALL, true, false, "C16"),
    // ---------------- matrices (C01, C02, C17)
    sig!("add", &[M, M], F4A, D24, 1, FR, true, false, "C01 C17"),
    sig!("sub", &[M, M], F4A, D24, 1, FR, true, false, "C01 C17"),
    sig!("neg", &[M], FVR, D24, 1, FR, true, false, "C01 C17"),
    sig!("mul_s", &[M, S], F2A, D24, 2, FR, true, false, "C01 C17"),
    sig!("div_s", &[M, Snz], F2A, D24, 2, MF, true, false, "C01 C17"),
    sig!("rem_s", &[M, Snz], F2A, D24, 2, FR, false, false, "C01 C17"),
    sig!("s_mul", &[S, M], FL, D24, 2, ALL, true, true, "C17 C01"),
    sig!("s_div", &[S, Mnz], FL, D24, 2, MF | MI | MU, true, true, "C17 C01"),
    sig!("s_rem", &[S, Mnz], FL, D24, 2, ALL, false, true, "C17 C01"),
    sig!("mul", &[M, V], F4, D24, 2, FR, true, false, "C01 C17"),
    sig!("mul", &[M, M], F4, D24, 2, FR, true, false, "C01 C17 C02"),
    sig!("transpose", &[M], FM, D24, 1, FR, true, false, "C01 C02"),
    sig!("transpose_self", &[M], FM, D24, 1, FR, true, false, "C02"),
    sig!("det", &[M], FM, D24, 5, FR, true, false, "C02"),
    sig!("invert", &[M], FM, D24, 5, FR, true, false, "C02"),
    sig!("inverse_transform_m", &[M], &["2", "3"], &[3, 4], 5, FR, true, false, "C02 C08"),
    sig!("trace", &[M], FM, D24, 1, FR, true, false, "C01"),
    sig!("diagonal", &[M], FM, D24, 1, FR, true, false, "C01"),
    sig!("row", &[M, Idx], FM, D24, 1, FR, true, false, "C01"),
    sig!("col", &[M, Idx], FM, D24, 1, FR, true, false, "C01 C16"),
    sig!("swap_rows", &[M, Idx, Idx], FM, D24, 1, FR, true, false, "C02"),
    sig!("swap_cols", &[M, Idx, Idx], FM, D24, 1, FR, true, false, "C02"),
    sig!("swap_elems", &[M, Idx, Idx, Idx, Idx], FM, D24, 1, FR, true, false, "C02"),
    sig!("replace_col", &[M, Idx, V], FM, D24, 1, FR, true, false, "C02"),
    sig!("mat_from_value", &[Tm, S], FM, D24, 1, FR, true, false, "C01"),
    sig!("from_diagonal", &[V], FM, D24, 1, FR, true, false, "C01"),
    sig!("identity", &[Tm], &["id", "one"], D24, 1, FR, true, false, "C01"),
    sig!("zero", &[Tm], FM, D24, 1, FR, true, false, "C01"),
    sig!("lerp", &[M, M, S], FM, D24, 2, FR, true, false, "C14"),
    sig!("from_translation", &[V], FM, &[2, 3], 1, FR, true, false, "C01"),
    sig!("from_scale", &[TvP1m, S], FM, &[2, 3], 1, FR, true, false, "C01"),
    sig!("from_nonuniform_scale", &[ManyS(0)], FM, &[2, 3], 1, FR, true, false, "C01"),
    sig!("embed", &[M, I(3, 4)], FM, &[2, 3], 1, ALL, true, false, "C01"),
    sig!("mat_new", &[ManyS(1)], FM, D24, 1, ALL, true, false, "C01 C16"),
    sig!("from_cols", &[ManyV], FM, D24, 1, ALL, true, false, "C01 C16"),
    sig!("iter_sum", &[Tm, ManyM], FVR, D24, 1, FR, true, false, "C17 C01"),
    sig!("iter_product", &[Tm, ManyM], FVR, D24, 6, FR, true, false, "C17 C01"),
    // ---------------- quaternions (C04, C17)
    sig!("add", &[Quat, Quat], F4A, &[4], 1, FR, true, false, "C04 C17"),
    sig!("sub", &[Quat, Quat], F4A, &[4], 1, FR, true, false, "C04 C17"),
    sig!("neg", &[Quat], FVR, &[4], 1, FR, true, false, "C04 C17"),
    sig!("mul_s", &[Quat, S], F2A, &[4], 2, FR, true, false, "C04 C17"),
    sig!("div_s", &[Quat, Snz], F2A, &[4], 2, MF, true, false, "C04 C17"),
    sig!("rem_s", &[Quat, Snz], F2A, &[4], 2, FR, false, false, "C04 C17"),
    sig!("s_mul", &[S, Quat], FL, &[4], 2, FR, true, true, "C17 C04"),
    sig!("s_div", &[S, Qnz], FL, &[4], 2, MF, true, true, "C17 C04"),
    sig!("mul", &[Quat, Quat], F4, &[4], 2, FR, true, false, "C04 C17"),
    sig!("mul", &[Quat, V], F4, &[3], 3, FR, true, false, "C04 C17"),
    sig!("dot", &[Quat, Quat], &["m", "free"], &[4], 2, FR, true, false, "C04"),
    sig!("mag2", &[Quat], FM, &[4], 2, FR, true, false, "C04 C11"),
    sig!("distance2", &[Quat, Quat], FM, &[4], 2, FR, true, false, "C11"),
    sig!("conjugate", &[Quat], FM, &[4], 1, FR, true, false, "C04"),
    sig!("rot_invert", &[Qnz], FM, &[4], 3, MF, true, false, "C04"),
    sig!("lerp", &[Quat, Quat, S], FM, &[4], 2, FR, true, false, "C14"),
    sig!("one", &[Tq], FM, &[4], 1, FR, true, false, "C04"),
    sig!("zero", &[Tq], FM, &[4], 1, FR, true, false, "C04"),
    sig!("iter_sum", &[Tq, ManyQ], FVR, &[4], 1, FR, true, false, "C17 C04"),
    sig!("iter_product", &[Tq, ManyQ], FVR, &[4], 6, FR, true, false, "C17 C04"),
    sig!("quat_new", &[S, S, S, S], FM, &[4], 1, ALL, true, false, "C16 C04"),
    sig!("from_sv", &[S, V], FM, &[3], 1, ALL, true, false, "C16 C04"),
    sig!("mat3_from_quat", &[Quat], FM, &[4], 2, ALL, true, false, "C05"),
    sig!("mat4_from_quat", &[Quat], FM, &[4], 2, ALL, true, false, "C05"),
];
#[allow(non_upper_case_globals)]
const TvP1m: AK = AK::TvP1; // type tag of the (n+1)-dimensional matrix

// ---------------------------------------------------------------- values
pub fn maxmag_q(v: &Val<Q>) -> i128 {
    let enc = v.enc();
    let mut m: i128 = 0;
    let mut cur: i128 = 0; let mut inn = false;
    for ch in enc.chars() {
        if ch.is_ascii_digit() { cur = cur * 10 + (ch as i128 - 48); inn = true; }
        else { if inn { if cur > m { m = cur; } cur = 0; inn = false; } }
    }
    m
}

pub trait GenSc: Exec {
    fn small(rng: &mut Rng, mode: Mode, nz: bool) -> Self;
    fn mag(v: &Val<Self>) -> i128;
    fn nonneg(v: &Val<Self>) -> bool;
    fn is_zero_s(&self) -> bool;
    fn integral(v: &Val<Self>) -> bool;
}
impl GenSc for Q {
    fn small(rng: &mut Rng, mode: Mode, nz: bool) -> Q {
        loop {
            let n = rng.range(-6, 6) as i128;
            let d = if mode == Mode::Field { *rng.pick(&[1, 1, 1, 1, 2, 2, 3, 4]) } else { 1 };
            if nz && n == 0 { continue; }
            return Q::new(n, d);
        }
    }
    fn mag(v: &Val<Q>) -> i128 { maxmag_q(v) }
    fn nonneg(v: &Val<Q>) -> bool { !v.enc().contains('-') }
    fn is_zero_s(&self) -> bool { self.n == 0 }
    fn integral(v: &Val<Q>) -> bool {
        // every scalar [n,d] has d = 1
        let e = v.enc();
        let j: serde_json::Value = serde_json::from_str(&e).unwrap();
        fn walk(j: &serde_json::Value) -> bool {
            match j {
                serde_json::Value::Array(a) => {
                    if a.len() == 2 && a[0].is_i64() && a[1].is_i64() { return a[1].as_i64() == Some(1); }
                    a.iter().all(walk)
                }
                serde_json::Value::Object(o) => o.get("c").map(walk).unwrap_or(true),
                _ => true,
            }
        }
        walk(&j)
    }
}
impl GenSc for i64 {
    fn small(rng: &mut Rng, mode: Mode, nz: bool) -> i64 {
        loop {
            let n = if mode == Mode::Uint { rng.range(0, 5) } else { rng.range(-5, 5) };
            if nz && n == 0 { continue; }
            return n;
        }
    }
    fn mag(v: &Val<i64>) -> i128 {
        let enc = v.enc();
        let mut m: i128 = 0; let mut cur: i128 = 0; let mut inn = false;
        for ch in enc.chars() {
            if ch.is_ascii_digit() { cur = cur * 10 + (ch as i128 - 48); inn = true; }
            else { if inn { if cur > m { m = cur; } cur = 0; inn = false; } }
        }
        m
    }
    fn nonneg(v: &Val<i64>) -> bool { !v.enc().contains('-') }
    fn is_zero_s(&self) -> bool { *self == 0 }
    fn integral(_: &Val<i64>) -> bool { true }
}

fn budget(class: u8, mode: Mode, n: usize) -> i128 {
    match mode {
        Mode::Field | Mode::Ring => match class { 1 => 20000, 2 => 120, 3 => 24, 4 => 8, 5 => match n { 2 => 60, 3 => 16, _ => 7 }, 6 => 6, _ => 8 },
        Mode::Int | Mode::Uint => match class { 1 => 40, 2 => 5, 3 => 4, 4 => 3, _ => 2 },
    }
}
const RESULT_MAX_FIELD: i128 = 30000;
const RESULT_MAX_INT: i128 = 100;

fn gen_s<G: GenSc>(rng: &mut Rng, mode: Mode, nz: bool) -> G { G::small(rng, mode, nz) }
fn gen_vec<G: GenSc>(rng: &mut Rng, mode: Mode, n: usize, nz: bool) -> Val<G> {
    let mut c = |r: &mut Rng| gen_s::<G>(r, mode, nz);
    match n {
        1 => Val::V1(Vector1::new(c(rng))),
        2 => Val::V2(Vector2::new(c(rng), c(rng))),
        3 => Val::V3(Vector3::new(c(rng), c(rng), c(rng))),
        _ => Val::V4(Vector4::new(c(rng), c(rng), c(rng), c(rng))),
    }
}
fn gen_pt<G: GenSc>(rng: &mut Rng, mode: Mode, n: usize, nz: bool) -> Val<G> {
    let mut c = |r: &mut Rng| gen_s::<G>(r, mode, nz);
    match n {
        1 => Val::P1(Point1::new(c(rng))),
        2 => Val::P2(Point2::new(c(rng), c(rng))),
        _ => Val::P3(Point3::new(c(rng), c(rng), c(rng))),
    }
}
fn gen_mat<G: GenSc>(rng: &mut Rng, mode: Mode, n: usize, nz: bool) -> Val<G> {
    // mostly dense; sometimes singular by construction (repeated / combined columns, zero row)
    let mut c = |r: &mut Rng| gen_s::<G>(r, mode, nz);
    let mut e: Vec<Vec<G>> = (0..n).map(|_| (0..n).map(|_| c(rng)).collect()).collect();
    if !nz && rng.chance(1, 6) {
        match rng.below(3) {
            0 => { let (i, j) = (rng.below(n), rng.below(n)); if i != j { e[i] = e[j].clone(); } }
            1 => { let r = rng.below(n); for col in e.iter_mut() { col[r] = G::from_i(0); } }
            _ => { if n >= 3 { let k = gen_s::<G>(rng, if mode == Mode::Field { Mode::Ring } else { mode }, true); for r in 0..n { let v = e[0][r] + e[1][r] * k; e[2][r] = v; } } }
        }
    }
    match n {
        2 => Val::M2(Matrix2::new(e[0][0], e[0][1], e[1][0], e[1][1])),
        3 => Val::M3(Matrix3::new(e[0][0], e[0][1], e[0][2], e[1][0], e[1][1], e[1][2], e[2][0], e[2][1], e[2][2])),
        _ => Val::M4(Matrix4::new(e[0][0], e[0][1], e[0][2], e[0][3], e[1][0], e[1][1], e[1][2], e[1][3], e[2][0], e[2][1], e[2][2], e[2][3], e[3][0], e[3][1], e[3][2], e[3][3])),
    }
}
fn gen_quat<G: GenSc>(rng: &mut Rng, mode: Mode, nz: bool) -> Val<G> {
    let mut c = |r: &mut Rng| gen_s::<G>(r, mode, nz);
    Val::Q(Quaternion::new(c(rng), c(rng), c(rng), c(rng)))
}

fn tag_matches<G: GenSc>(v: &Val<G>, ak: AK, n: usize) -> bool {
    use Val::*;
    match (ak, v) {
        (AK::V, V1(_)) | (AK::Vnz, V1(_)) => n == 1,
        (AK::V, V2(_)) | (AK::Vnz, V2(_)) => n == 2,
        (AK::V, V3(_)) | (AK::Vnz, V3(_)) => n == 3,
        (AK::V, V4(_)) | (AK::Vnz, V4(_)) => n == 4,
        (AK::Vp1, V2(_)) => n == 1, (AK::Vp1, V3(_)) => n == 2, (AK::Vp1, V4(_)) => n == 3,
        (AK::P, P1(_)) | (AK::Pnz, P1(_)) => n == 1,
        (AK::P, P2(_)) | (AK::Pnz, P2(_)) => n == 2,
        (AK::P, P3(_)) | (AK::Pnz, P3(_)) => n == 3,
        (AK::M, M2(_)) | (AK::Mnz, M2(_)) => n == 2,
        (AK::M, M3(_)) | (AK::Mnz, M3(_)) => n == 3,
        (AK::M, M4(_)) | (AK::Mnz, M4(_)) => n == 4,
        (AK::Quat, Q(_)) | (AK::Qnz, Q(_)) => true,
        (AK::S, N(_)) | (AK::Snz, N(_)) => true,
        _ => false,
    }
}
fn all_nonzero<G: GenSc>(v: &Val<G>) -> bool {
    // no component is zero: look for "[0," scalars in the encoding
    !v.enc().contains("[0,")
}
fn needs_nz(ak: AK) -> bool { matches!(ak, AK::Vnz | AK::Pnz | AK::Mnz | AK::Qnz | AK::Snz) }

pub struct Gen<G: GenSc> {
    pub rng: Rng,
    pub mode: Mode,
    pub regs: Vec<Val<G>>,
    pub init: Vec<Val<G>>,       // registers as loaded (only fresh loads), Nil elsewhere
    pub calls: Vec<String>,
    pub fsafe: bool,
    pub prim: bool,
    pub written: Vec<bool>,      // register written by a call (cannot be re-initialised)
}

impl<G: GenSc> Gen<G> {
    fn fresh(&mut self, ak: AK, n: usize) -> Option<Val<G>> {
        let m = self.mode;
        let nz = needs_nz(ak);
        Some(match ak {
            AK::V | AK::Vnz => gen_vec(&mut self.rng, m, n, nz),
            AK::Vp1 => gen_vec(&mut self.rng, m, n + 1, false),
            AK::V4w => { let v = gen_vec::<G>(&mut self.rng, m, 3, false); let w = gen_s::<G>(&mut self.rng, m, true);
                         if let Val::V3(v) = v { Val::V4(v.extend(w)) } else { unreachable!() } }
            AK::P | AK::Pnz => gen_pt(&mut self.rng, m, n, nz),
            AK::M | AK::Mnz => gen_mat(&mut self.rng, m, n, nz),
            AK::Quat | AK::Qnz => gen_quat(&mut self.rng, m, nz),
            AK::S | AK::Snz => Val::N(gen_s::<G>(&mut self.rng, m, nz)),
            AK::Idx => Val::I(self.rng.below(n) as i64),
            AK::I(lo, hi) => Val::I(self.rng.range(lo, hi)),
            AK::Tv => Val::T(format!("Vector{}", n)),
            AK::Tp => Val::T(format!("Point{}", n)),
            AK::Tm => Val::T(format!("Matrix{}", n)),
            AK::TvP1 => Val::T(format!("Matrix{}", n + 1)),
            AK::Tq => Val::T("Quaternion".into()),
            _ => return None,
        })
    }
    /// choose (or load) a register holding a value of kind `ak`
    fn arg(&mut self, ak: AK, n: usize, class: u8, avoid: &[usize]) -> Option<usize> {
        let b = budget(class, self.mode, n);
        if self.rng.chance(3, 5) {
            let cands: Vec<usize> = (0..NREG).filter(|&i| tag_matches(&self.regs[i], ak, n) && G::mag(&self.regs[i]) <= b
                && (!needs_nz(ak) || all_nonzero(&self.regs[i]))).collect();
            if !cands.is_empty() { return Some(*self.rng.pick(&cands)); }
        }
        // load a fresh value into a register that no call has touched yet and no earlier arg of this call uses
        let free: Vec<usize> = (0..NREG).filter(|&i| !self.written[i] && matches!(self.init[i], Val::Nil) && !avoid.contains(&i)).collect();
        if free.is_empty() {
            let cands: Vec<usize> = (0..NREG).filter(|&i| tag_matches(&self.regs[i], ak, n) && G::mag(&self.regs[i]) <= b
                && (!needs_nz(ak) || all_nonzero(&self.regs[i]))).collect();
            if cands.is_empty() { return None; }
            return Some(*self.rng.pick(&cands));
        }
        let slot = free[0];
        let v = self.fresh(ak, n)?;
        self.regs[slot] = v.clone();
        self.init[slot] = v;
        Some(slot)
    }
    fn step(&mut self, sig: &Sig) -> bool { self.step_forced(sig, None, None) }
    fn step_forced(&mut self, sig: &Sig, force_n: Option<usize>, force_form: Option<&'static str>) -> bool {
        let n = match force_n { Some(n) => n, None => *self.rng.pick(sig.dims) };
        let mut args: Vec<usize> = Vec::new();
        for &ak in sig.args {
            let many = |k: usize| k;
            match ak {
                AK::ManyV | AK::ManyM | AK::ManyQ | AK::ManyP1 => {
                    let (kind, cnt) = match ak {
                        AK::ManyV => (AK::V, if sig.op == "from_cols" { n } else { self.rng.below(4) }),
                        AK::ManyM => (AK::M, self.rng.below(4)),
                        AK::ManyQ => (AK::Quat, self.rng.below(4)),
                        _ => (AK::P, self.rng.below(3)),
                    };
                    for _ in 0..many(cnt) { match self.arg(kind, n, sig.class, &args) { Some(i) => args.push(i), None => return false } }
                }
                AK::ManyS(sq) => {
                    let cnt = if sq == 1 { n * n } else { n };
                    for _ in 0..cnt { match self.arg(AK::S, n, sig.class, &args) { Some(i) => args.push(i), None => return false } }
                }
                _ => match self.arg(ak, n, sig.class, &args) { Some(i) => args.push(i), None => return false },
            }
        }
        let form = match force_form { Some(f) => f, None => *self.rng.pick(sig.forms) };
        let av: Vec<Val<G>> = args.iter().map(|&i| self.regs[i].clone()).collect();
        let res = match run_call::<G>(sig.op, form, &av) { Outcome::Done(v) => v, _ => return false };
        if matches!(res, Val::Panic) { return false; }
        let enc = res.enc();
        if is_bad(&enc) { return false; }
        let lim = match self.mode { Mode::Field | Mode::Ring => RESULT_MAX_FIELD, _ => RESULT_MAX_INT };
        if G::mag(&res) > lim { return false; }
        if self.mode == Mode::Uint && !G::nonneg(&res) { return false; }
        if self.mode == Mode::Ring && !G::integral(&res) { return false; }
        // exactly singular matrices and other discontinuities are decided in exact arithmetic only
        if !sig.fsafe { self.fsafe = false; }
        if (sig.op == "invert" || sig.op == "inverse_transform_m") && matches!(res, Val::ONone) && self.mode == Mode::Field { self.fsafe = false; }
        if sig.prim { self.prim = true; }
        let dst = self.rng.below(NREG);
        // do not clobber a register that was loaded but not yet consumed as initial state? it is fine: init is recorded separately
        self.regs[dst] = res;
        self.written[dst] = true;
        let a1: Vec<String> = args.iter().map(|i| (i + 1).to_string()).collect();
        self.calls.push(format!("{{\"op\":\"{}\",\"f\":\"{}\",\"a\":[{}],\"d\":{}}}", sig.op, form, a1.join(","), dst + 1));
        true
    }
}

fn scalars_for(mode: Mode, fsafe: bool, prim: bool) -> Vec<&'static str> {
    match mode {
        Mode::Field => if prim { if fsafe { vec!["f64"] } else { vec![] } } else if fsafe { vec!["Q", "f64"] } else { vec!["Q"] },
        Mode::Ring => if prim { vec!["f64", "f32"] } else { vec!["Q", "f64", "f32"] },
        Mode::Int => vec!["i8", "i16", "i32", "i64", "isize"],
        Mode::Uint => vec!["u8", "u16", "u32", "u64", "usize", "i8", "i32"],
    }
}

fn gen_program<G: GenSc>(rng: &mut Rng, mode: Mode, sigs: &[&Sig], pid: u64, len: usize) -> Option<String> {
    let mut g = Gen::<G> { rng: Rng(rng.next()), mode, regs: vec![Val::Nil; NREG], init: vec![Val::Nil; NREG], calls: Vec::new(),
                           fsafe: true, prim: false, written: vec![false; NREG] };
    let mut tries = 0;
    while g.calls.len() < len && tries < len * 6 {
        tries += 1;
        let s = *g.rng.pick(sigs);
        // a load that a failed step left behind is harmless (it is simply an unused initial register)
        g.step(s);
    }
    if g.calls.is_empty() { return None; }
    let scs = scalars_for(mode, g.fsafe, g.prim);
    if scs.is_empty() { return None; }
    let regs: Vec<String> = g.init.iter().map(|r| r.enc()).collect();
    let scj: Vec<String> = scs.iter().map(|s| format!("\"{}\"", s)).collect();
    Some(format!("{{\"pid\":{},\"mode\":\"{:?}\",\"sc\":[{}],\"regs\":[{}],\"calls\":[{}]}}", pid, mode, scj.join(","), regs.join(","), g.calls.join(",")))
}

/// one single-call program for a forced (signature, dimension, form): the systematic sweep over the operator table
fn gen_cover<G: GenSc>(rng: &mut Rng, mode: Mode, sig: &Sig, n: usize, form: &'static str, pid: u64) -> Option<String> {
    for _ in 0..4 {
        let mut g = Gen::<G> { rng: Rng(rng.next()), mode, regs: vec![Val::Nil; NREG], init: vec![Val::Nil; NREG], calls: Vec::new(),
                               fsafe: true, prim: false, written: vec![false; NREG] };
        if !g.step_forced(sig, Some(n), Some(form)) { continue; }
        let mut scs = scalars_for(mode, g.fsafe, g.prim);
        // single low-degree calls on small rationals have results with denominators well below the f32 snap limit (256)
        // (f32 results are snapped with radius 4e-6*max(1,|x|) to denominators <= 256: unambiguous only for single
        //  sums, products or quotients of small rationals, not for sums of products)
        let f32_ok = sig.class <= 1 || ["s_div", "div_s", "div_ew", "s_mul", "mul_s", "mul_ew"].contains(&sig.op);
        if mode == Mode::Field && g.fsafe && f32_ok && !scs.contains(&"f32") { scs.push("f32"); }
        if scs.is_empty() { return None; }
        let regs: Vec<String> = g.init.iter().map(|r| r.enc()).collect();
        let scj: Vec<String> = scs.iter().map(|s| format!("\"{}\"", s)).collect();
        return Some(format!("{{\"pid\":{},\"mode\":\"{:?}\",\"cover\":true,\"sc\":[{}],\"regs\":[{}],\"calls\":[{}]}}", pid, mode, scj.join(","), regs.join(","), g.calls.join(",")));
    }
    None
}

pub fn drive(profile: &str, seed: u64, count: usize) -> Vec<String> {
    let mut rng = Rng(seed.wrapping_mul(0x2545F4914F6CDD1D) ^ 0xC0FFEE);
    let mut out = Vec::new();
    let sigs: Vec<&Sig> = SIGS.iter().filter(|s| profile == "ALL" || s.props.split(' ').any(|p| p == profile)).collect();
    if sigs.is_empty() { return crate::driver2::drive2(profile, seed, count); }
    let mut pid = 0u64;
    let mut attempts = 0;
    while out.len() < count && attempts < count * 4 {
        attempts += 1;
        let mode = *rng.pick(&[Mode::Field, Mode::Field, Mode::Field, Mode::Ring, Mode::Int, Mode::Uint]);
        let ms: Vec<&Sig> = sigs.iter().cloned().filter(|s| s.modes & mbit(mode) != 0).collect();
        if ms.is_empty() { continue; }
        // programs mixing primitive-only ops with Q make no sense in Field mode: split by `prim`
        let want_prim = rng.chance(1, 4);
        let ms: Vec<&Sig> = match mode {
            Mode::Field | Mode::Ring => { let v: Vec<&Sig> = ms.iter().cloned().filter(|s| want_prim || !s.prim).collect(); v }
            _ => ms,
        };
        if ms.is_empty() { continue; }
        let len = 2 + rng.below(7);
        pid += 1;
        let p = match mode {
            Mode::Field | Mode::Ring => gen_program::<Q>(&mut rng, mode, &ms, pid, len),
            _ => gen_program::<i64>(&mut rng, mode, &ms, pid, len),
        };
        if let Some(p) = p { out.push(p); }
    }
    // systematic sweep: every (operator, dimension, operand form, scalar mode) of the table at least once,
    // independent of the random draws (exhaustive over the form table, values sampled)
    for s in &sigs {
        for &mode in &[Mode::Field, Mode::Ring, Mode::Int, Mode::Uint] {
            if s.modes & mbit(mode) == 0 { continue; }
            for &n in s.dims {
                for &form in s.forms {
                    pid += 1;
                    let p = match mode {
                        Mode::Field | Mode::Ring => gen_cover::<Q>(&mut rng, mode, s, n, form, pid),
                        _ => gen_cover::<i64>(&mut rng, mode, s, n, form, pid),
                    };
                    if let Some(p) = p { out.push(p); }
                }
            }
        }
    }
    out.extend(crate::driver2::drive2(profile, seed, count));
    out
}
