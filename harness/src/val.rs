//! Dynamically typed cgmath values and the JSON codec shared with the TLA+ spec.
use crate::ang::Unit;
use crate::sc::{dec_sym, Sc};
use cgmath::*;
use serde_json::Value;

pub type DecQ<S> = Decomposed<Vector3<S>, Quaternion<S>>;
pub type Dec3<S> = Decomposed<Vector3<S>, Basis3<S>>;
pub type Dec2<S> = Decomposed<Vector2<S>, Basis2<S>>;

#[derive(Clone, Debug)]
pub enum Val<S: Sc> {
    Nil,
    N(S),
    I(i64),
    B(bool),
    T(String),
    V1(Vector1<S>),
    V2(Vector2<S>),
    V3(Vector3<S>),
    V4(Vector4<S>),
    P1(Point1<S>),
    P2(Point2<S>),
    P3(Point3<S>),
    M2(Matrix2<S>),
    M3(Matrix3<S>),
    M4(Matrix4<S>),
    Q(Quaternion<S>),
    ARad(Rad<S>),
    ADeg(Deg<S>),
    B2(Basis2<S>),
    B3(Basis3<S>),
    ERad(Euler<Rad<S>>),
    EDeg(Euler<Deg<S>>),
    DQ(DecQ<S>),
    D3(Dec3<S>),
    D2(Dec2<S>),
    POrtho(Ortho<S>),
    PPersp(Perspective<S>),
    PFov(PerspectiveFov<S>),
    Planar(PlanarFov<S>),
    ONone,
    OSome(Box<Val<S>>),
    Panic,
    Tup(Vec<Val<S>>),
    /// not executable at this scalar (never logged)
    NA(String),
}

pub fn basis2_from<S: Sc>(m: Matrix2<S>) -> Basis2<S> {
    assert_eq!(std::mem::size_of::<Basis2<S>>(), std::mem::size_of::<Matrix2<S>>());
    unsafe { std::mem::transmute_copy(&m) }
}
pub fn basis3_from<S: Sc>(m: Matrix3<S>) -> Basis3<S> {
    assert_eq!(std::mem::size_of::<Basis3<S>>(), std::mem::size_of::<Matrix3<S>>());
    unsafe { std::mem::transmute_copy(&m) }
}
pub fn basis2_mat<S: Sc>(b: &Basis2<S>) -> Matrix2<S> {
    unsafe { std::mem::transmute_copy(b) }
}
pub fn basis3_mat<S: Sc>(b: &Basis3<S>) -> Matrix3<S> {
    *b.as_ref()
}

fn es<S: Sc>(xs: &[S]) -> String {
    let v: Vec<String> = xs.iter().map(|x| x.enc()).collect();
    format!("[{}]", v.join(","))
}
fn obj(t: &str, c: String) -> String {
    format!("{{\"t\":\"{}\",\"c\":{}}}", t, c)
}
fn m2c<S: Sc>(m: &Matrix2<S>) -> String {
    format!("[{},{}]", es(&[m.x.x, m.x.y]), es(&[m.y.x, m.y.y]))
}
fn m3c<S: Sc>(m: &Matrix3<S>) -> String {
    format!("[{},{},{}]", es(&[m.x.x, m.x.y, m.x.z]), es(&[m.y.x, m.y.y, m.y.z]), es(&[m.z.x, m.z.y, m.z.z]))
}
fn m4c<S: Sc>(m: &Matrix4<S>) -> String {
    format!(
        "[{},{},{},{}]",
        es(&[m.x.x, m.x.y, m.x.z, m.x.w]),
        es(&[m.y.x, m.y.y, m.y.z, m.y.w]),
        es(&[m.z.x, m.z.y, m.z.z, m.z.w]),
        es(&[m.w.x, m.w.y, m.w.z, m.w.w])
    )
}

impl<S: Sc> Val<S> {
    pub fn enc(&self) -> String {
        use Val::*;
        match self {
            Nil => obj("Nil", "[]".into()),
            N(x) => obj("S", es(&[*x])),
            I(i) => obj("I", format!("[{}]", i)),
            B(b) => obj("B", format!("[{}]", b)),
            T(s) => obj("T", format!("[\"{}\"]", s)),
            V1(v) => obj("Vec", es(&[v.x])),
            V2(v) => obj("Vec", es(&[v.x, v.y])),
            V3(v) => obj("Vec", es(&[v.x, v.y, v.z])),
            V4(v) => obj("Vec", es(&[v.x, v.y, v.z, v.w])),
            P1(v) => obj("Pt", es(&[v.x])),
            P2(v) => obj("Pt", es(&[v.x, v.y])),
            P3(v) => obj("Pt", es(&[v.x, v.y, v.z])),
            M2(m) => obj("Mat", m2c(m)),
            M3(m) => obj("Mat", m3c(m)),
            M4(m) => obj("Mat", m4c(m)),
            Q(q) => obj("Quat", es(&[q.s, q.v.x, q.v.y, q.v.z])),
            ARad(a) => obj("Rad", a.0.enc_ang(Unit::Rad)),
            ADeg(a) => obj("Deg", a.0.enc_ang(Unit::Deg)),
            B2(b) => obj("Basis", m2c(&basis2_mat(b))),
            B3(b) => obj("Basis", m3c(&basis3_mat(b))),
            ERad(e) => obj(
                "ERad",
                format!("[{},{},{}]", e.x.0.enc_ang(Unit::Rad), e.y.0.enc_ang(Unit::Rad), e.z.0.enc_ang(Unit::Rad)),
            ),
            EDeg(e) => obj(
                "EDeg",
                format!("[{},{},{}]", e.x.0.enc_ang(Unit::Deg), e.y.0.enc_ang(Unit::Deg), e.z.0.enc_ang(Unit::Deg)),
            ),
            DQ(d) => obj("Dec", format!("[{},{},{}]", N(d.scale).enc(), Q(d.rot).enc(), V3(d.disp).enc())),
            D3(d) => obj("Dec", format!("[{},{},{}]", N(d.scale).enc(), B3(d.rot).enc(), V3(d.disp).enc())),
            D2(d) => obj("Dec", format!("[{},{},{}]", N(d.scale).enc(), B2(d.rot).enc(), V2(d.disp).enc())),
            POrtho(o) => obj("Ortho", es(&[o.left, o.right, o.bottom, o.top, o.near, o.far])),
            PPersp(o) => obj("Persp", es(&[o.left, o.right, o.bottom, o.top, o.near, o.far])),
            PFov(o) => obj("PFov", format!("[{},{},{},{}]", o.fovy.0.enc_ang(Unit::Rad), o.aspect.enc(), o.near.enc(), o.far.enc())),
            Planar(o) => obj(
                "Planar",
                format!("[{},{},{},{},{}]", o.fovy.0.enc_ang(Unit::Rad), o.aspect.enc(), o.height.enc(), o.near.enc(), o.far.enc()),
            ),
            ONone => obj("None", "[]".into()),
            OSome(v) => obj("Some", format!("[{}]", v.enc())),
            Panic => obj("Panic", "[]".into()),
            Tup(vs) => {
                let v: Vec<String> = vs.iter().map(|x| x.enc()).collect();
                obj("Tup", format!("[{}]", v.join(",")))
            }
            NA(s) => obj("NA", format!("[\"{}\"]", s.replace('"', "'"))),
        }
    }

    pub fn dec(j: &Value) -> Val<S> {
        use Val::*;
        let t = j["t"].as_str().unwrap_or_else(|| panic!("H:value without tag {}", j));
        let c = j["c"].as_array().unwrap_or_else(|| panic!("H:value without c {}", j));
        let sc = |i: usize| <S as Sc>::dec(&c[i]);
        let col = |i: usize| -> Vec<S> { c[i].as_array().unwrap().iter().map(|x| <S as Sc>::dec(x)).collect() };
        match t {
            "Nil" => Nil,
            "S" => N(sc(0)),
            "I" => I(c[0].as_i64().unwrap()),
            "B" => B(c[0].as_bool().unwrap()),
            "T" => T(c[0].as_str().unwrap().to_string()),
            "Vec" => match c.len() {
                1 => V1(Vector1::new(sc(0))),
                2 => V2(Vector2::new(sc(0), sc(1))),
                3 => V3(Vector3::new(sc(0), sc(1), sc(2))),
                4 => V4(Vector4::new(sc(0), sc(1), sc(2), sc(3))),
                _ => panic!("H:bad Vec"),
            },
            "Pt" => match c.len() {
                1 => P1(Point1::new(sc(0))),
                2 => P2(Point2::new(sc(0), sc(1))),
                3 => P3(Point3::new(sc(0), sc(1), sc(2))),
                _ => panic!("H:bad Pt"),
            },
            "Mat" | "Basis" => {
                let cols: Vec<Vec<S>> = (0..c.len()).map(col).collect();
                match c.len() {
                    2 => {
                        let m = Matrix2::new(cols[0][0], cols[0][1], cols[1][0], cols[1][1]);
                        if t == "Mat" {
                            M2(m)
                        } else {
                            B2(basis2_from(m))
                        }
                    }
                    3 => {
                        let m = Matrix3::new(
                            cols[0][0], cols[0][1], cols[0][2], cols[1][0], cols[1][1], cols[1][2], cols[2][0], cols[2][1], cols[2][2],
                        );
                        if t == "Mat" {
                            M3(m)
                        } else {
                            B3(basis3_from(m))
                        }
                    }
                    4 => {
                        if t != "Mat" {
                            panic!("H:bad Basis")
                        }
                        M4(Matrix4::new(
                            cols[0][0], cols[0][1], cols[0][2], cols[0][3], cols[1][0], cols[1][1], cols[1][2], cols[1][3], cols[2][0],
                            cols[2][1], cols[2][2], cols[2][3], cols[3][0], cols[3][1], cols[3][2], cols[3][3],
                        ))
                    }
                    _ => panic!("H:bad Mat"),
                }
            }
            "Quat" => Q(Quaternion::new(sc(0), sc(1), sc(2), sc(3))),
            "Rad" => ARad(cgmath::Rad(S::dec_ang(dec_sym(&j["c"]), Unit::Rad))),
            "Deg" => ADeg(cgmath::Deg(S::dec_ang(dec_sym(&j["c"]), Unit::Deg))),
            "ERad" => {
                let a = |i: usize| cgmath::Rad(S::dec_ang(dec_sym(&c[i]), Unit::Rad));
                ERad(Euler::new(a(0), a(1), a(2)))
            }
            "EDeg" => {
                let a = |i: usize| cgmath::Deg(S::dec_ang(dec_sym(&c[i]), Unit::Deg));
                EDeg(Euler::new(a(0), a(1), a(2)))
            }
            "Dec" => {
                let scale = match Val::<S>::dec(&c[0]) {
                    N(x) => x,
                    _ => panic!("H:bad Dec scale"),
                };
                match (Val::<S>::dec(&c[1]), Val::<S>::dec(&c[2])) {
                    (Q(r), V3(d)) => DQ(Decomposed { scale, rot: r, disp: d }),
                    (B3(r), V3(d)) => D3(Decomposed { scale, rot: r, disp: d }),
                    (B2(r), V2(d)) => D2(Decomposed { scale, rot: r, disp: d }),
                    _ => panic!("H:bad Dec"),
                }
            }
            "Ortho" => POrtho(cgmath::Ortho { left: sc(0), right: sc(1), bottom: sc(2), top: sc(3), near: sc(4), far: sc(5) }),
            "Persp" => PPersp(cgmath::Perspective { left: sc(0), right: sc(1), bottom: sc(2), top: sc(3), near: sc(4), far: sc(5) }),
            "PFov" => PFov(cgmath::PerspectiveFov {
                fovy: cgmath::Rad(S::dec_ang(dec_sym(&c[0]), Unit::Rad)),
                aspect: sc(1),
                near: sc(2),
                far: sc(3),
            }),
            "Planar" => Planar(cgmath::PlanarFov {
                fovy: cgmath::Rad(S::dec_ang(dec_sym(&c[0]), Unit::Rad)),
                aspect: sc(1),
                height: sc(2),
                near: sc(3),
                far: sc(4),
            }),
            "None" => ONone,
            "Some" => OSome(Box::new(Val::dec(&c[0]))),
            "Panic" => Panic,
            "Tup" => Tup(c.iter().map(|x| Val::dec(x)).collect()),
            _ => panic!("H:unknown tag {}", t),
        }
    }
}

impl<S: Sc> Val<S> {
    /// component-wise map over the plain numeric containers (used by the driver only)
    pub fn map_scalars(&self, f: &dyn Fn(S) -> S) -> Option<Val<S>> {
        use Val::*;
        Some(match self {
            V1(v) => V1(Vector1::new(f(v.x))),
            V2(v) => V2(Vector2::new(f(v.x), f(v.y))),
            V3(v) => V3(Vector3::new(f(v.x), f(v.y), f(v.z))),
            V4(v) => V4(Vector4::new(f(v.x), f(v.y), f(v.z), f(v.w))),
            P1(v) => P1(Point1::new(f(v.x))),
            P2(v) => P2(Point2::new(f(v.x), f(v.y))),
            P3(v) => P3(Point3::new(f(v.x), f(v.y), f(v.z))),
            M2(m) => M2(Matrix2::new(f(m.x.x), f(m.x.y), f(m.y.x), f(m.y.y))),
            M3(m) => M3(Matrix3::new(f(m.x.x), f(m.x.y), f(m.x.z), f(m.y.x), f(m.y.y), f(m.y.z), f(m.z.x), f(m.z.y), f(m.z.z))),
            M4(m) => M4(Matrix4::new(
                f(m.x.x), f(m.x.y), f(m.x.z), f(m.x.w), f(m.y.x), f(m.y.y), f(m.y.z), f(m.y.w),
                f(m.z.x), f(m.z.y), f(m.z.z), f(m.z.w), f(m.w.x), f(m.w.y), f(m.w.z), f(m.w.w),
            )),
            Q(q) => Q(Quaternion::new(f(q.s), f(q.v.x), f(q.v.y), f(q.v.z))),
            _ => return None,
        })
    }
}
