//! Symbolic angles: a*90deg + k1*theta1 + k2*theta2 with
//!   e^{i theta1} = (3+4i)/5,  e^{i theta2} = (39+760i)/761 (steep: sin = 0.99868..)
//! `a` is a rational number of quarter turns, k1/k2 are integers. Every sine and
//! cosine of such an angle with integral `a` is an exact rational.
//!
//! At Q an angle value is a *label*: the exact dyadic value of the f64 nearest to
//! the real angle, combined linearly, so that cgmath's linear angle arithmetic
//! (+, -, * scalar, halving, unit conversion by the f64 constants) stays inside a
//! family of labels that can be decoded back to the symbolic angle exactly.
use crate::q::{gcd, Q};
use num_traits::Float;

#[derive(Copy, Clone, Debug, PartialEq)]
pub struct Sym {
    pub an: i64,
    pub ad: i64,
    pub k1: i64,
    pub k2: i64,
}
#[derive(Copy, Clone, Debug, PartialEq, Eq)]
pub enum Unit {
    Rad,
    Deg,
}

pub const K1MAX: i64 = 8;
pub const K2MAX: i64 = 2;
pub const ADMAX: i64 = 720;

pub fn t1() -> f64 {
    (4.0f64).atan2(3.0)
}
pub fn t2() -> f64 {
    (760.0f64).atan2(39.0)
}
fn base_f64(u: Unit) -> (f64, f64, f64) {
    match u {
        Unit::Rad => (std::f64::consts::FRAC_PI_2, t1(), t2()),
        Unit::Deg => (90.0, t1() * (180.0 / std::f64::consts::PI), t2() * (180.0 / std::f64::consts::PI)),
    }
}
fn base_q(u: Unit) -> (Q, Q, Q) {
    let (a, b, c) = base_f64(u);
    (Q::from_f64(a), Q::from_f64(b), Q::from_f64(c))
}
// the constants cgmath multiplies by when converting units
fn conv_q(from: Unit) -> Q {
    match from {
        Unit::Deg => Q::from_f64(std::f64::consts::PI / 180.0), // Deg -> Rad
        Unit::Rad => Q::from_f64(180.0 / std::f64::consts::PI), // Rad -> Deg
    }
}
fn other(u: Unit) -> Unit {
    if u == Unit::Rad {
        Unit::Deg
    } else {
        Unit::Rad
    }
}

/// The native label of a symbolic angle in unit `u`.
pub fn q_label(s: Sym, u: Unit) -> Q {
    let (b0, b1, b2) = base_q(u);
    Q::new(s.an as i128, s.ad as i128) * b0 + Q::int(s.k1 as i128) * b1 + Q::int(s.k2 as i128) * b2
}

fn try_decomp(y: Q, u: Unit) -> Option<Sym> {
    let (b0, b1, b2) = base_q(u);
    // cheapest first: small |k|
    let mut ks: Vec<(i64, i64)> = Vec::new();
    for k1 in -K1MAX..=K1MAX {
        for k2 in -K2MAX..=K2MAX {
            ks.push((k1, k2));
        }
    }
    ks.sort_by_key(|k| k.0.abs() + 4 * k.1.abs());
    for (k1, k2) in ks {
        let z = (y - Q::int(k1 as i128) * b1 - Q::int(k2 as i128) * b2) / b0;
        if z.d != 0 && z.d <= ADMAX as i128 && z.n.abs() <= 1_000_000 {
            return Some(Sym { an: z.n as i64, ad: z.d as i64, k1, k2 });
        }
    }
    None
}

/// Decode a Q label (in unit `u`) to its symbolic angle, if it is one.
pub fn q_recognise(x: Q, u: Unit) -> Option<Sym> {
    if x.d == 0 {
        return None;
    }
    if x.n == 0 {
        return Some(Sym { an: 0, ad: 1, k1: 0, k2: 0 });
    }
    // native; converted once from the other unit; converted there and back
    if let Some(s) = try_decomp(x, u) {
        return Some(s);
    }
    let o = other(u);
    if let Some(s) = try_decomp(x / conv_q(o), o) {
        return Some(s);
    }
    if let Some(s) = try_decomp(x / conv_q(o) / conv_q(u), u) {
        return Some(s);
    }
    None
}

fn cpow(re: i128, im: i128, den: i128, k: i64) -> (Q, Q) {
    // ((re + i im)/den)^k, |.| = 1 so negative k = conjugate
    let (mut r, mut i) = (Q::int(1), Q::int(0));
    let (br, bi) = (Q::new(re, den), Q::new(if k < 0 { -im } else { im }, den));
    for _ in 0..k.abs() {
        let nr = r * br - i * bi;
        let ni = r * bi + i * br;
        r = nr;
        i = ni;
    }
    (r, i)
}
/// (cos, sin) of a symbolic angle with integral quarter-turn part.
pub fn sym_cos_sin(s: Sym) -> Option<(Q, Q)> {
    if s.ad != 1 {
        return None;
    }
    let (c1, s1) = cpow(3, 4, 5, s.k1);
    let (c2, s2) = cpow(39, 760, 761, s.k2);
    let (mut c, mut sn) = (c1 * c2 - s1 * s2, c1 * s2 + s1 * c2);
    for _ in 0..s.an.rem_euclid(4) {
        let (nc, ns) = (-sn, c);
        c = nc;
        sn = ns;
    }
    Some((c, sn))
}
pub fn sym_value(s: Sym, u: Unit) -> f64 {
    let (b0, b1, b2) = base_f64(u);
    (s.an as f64 / s.ad as f64) * b0 + s.k1 as f64 * b1 + s.k2 as f64 * b2
}

pub fn q_sin_cos(x: Q) -> (Q, Q) {
    let s = q_recognise(x, Unit::Rad).unwrap_or_else(|| panic!("Q:trig-unrecognised {:?}", x));
    let (c, sn) = sym_cos_sin(s).unwrap_or_else(|| panic!("Q:trig-irrational {:?}", s));
    (sn, c)
}

thread_local! {
    static TABLE: Vec<(Sym, Q, Q, f64)> = {
        let mut t = Vec::new();
        for an in -2..=2i64 { for k1 in -K1MAX..=K1MAX { for k2 in -K2MAX..=K2MAX {
            let s = Sym { an, ad: 1, k1, k2 };
            let (c, sn) = sym_cos_sin(s).unwrap();
            t.push((s, c, sn, sym_value(s, Unit::Rad)));
        }}}
        t.sort_by_key(|e| e.0.k1.abs() + 4 * e.0.k2.abs());
        t
    };
}
const PI: f64 = std::f64::consts::PI;
fn find(pred: impl Fn(&Q, &Q) -> bool, lo: f64, hi: f64, what: &str) -> Q {
    let r = TABLE.with(|t| {
        t.iter()
            .find(|e| e.3 >= lo - 1e-9 && e.3 <= hi + 1e-9 && pred(&e.1, &e.2))
            .map(|e| e.0)
    });
    match r {
        Some(s) => q_label(s, Unit::Rad),
        None => panic!("Q:inverse-trig-unregistered {}", what),
    }
}
pub fn q_asin(v: Q) -> Q {
    if v.d == 0 || v.abs() > Q::int(1) {
        return Q::qnan();
    }
    find(|c, s| *s == v && *c >= Q::int(0), -PI / 2.0, PI / 2.0, "asin")
}
pub fn q_acos(v: Q) -> Q {
    if v.d == 0 || v.abs() > Q::int(1) {
        return Q::qnan();
    }
    find(|c, s| *c == v && *s >= Q::int(0), 0.0, PI, "acos")
}
pub fn q_atan2(y: Q, x: Q) -> Q {
    if y.is_nan() || x.is_nan() {
        return Q::qnan();
    }
    if y.d == 0 || x.d == 0 {
        panic!("Q:atan2-infinite");
    }
    if y.n == 0 && x.n == 0 {
        return Q::int(0);
    }
    // the half-open end: atan2(0, negative) = +pi
    find(|c, s| *s * x == *c * y && *c * x + *s * y > Q::int(0), -PI + 1e-6, PI, "atan2")
}

// ---------- f64 / f32 side: recognise a native angle value numerically
fn snap_small(x: f64, maxden: i64, tol: f64) -> Option<(i64, i64)> {
    // simplest p/q with q <= maxden and |x - p/q| <= tol, by continued fractions
    let neg = x < 0.0;
    let ax = x.abs();
    let (mut p0, mut q0, mut p1, mut q1) = (0i64, 1i64, 1i64, 0i64);
    let mut r = ax;
    for _ in 0..40 {
        let a = r.floor();
        if a > 1e12 {
            return None;
        }
        let a_i = a as i64;
        let p2 = a_i.checked_mul(p1)?.checked_add(p0)?;
        let q2 = a_i.checked_mul(q1)?.checked_add(q0)?;
        if q2 > maxden {
            return None;
        }
        p0 = p1;
        q0 = q1;
        p1 = p2;
        q1 = q2;
        if (ax - p1 as f64 / q1 as f64).abs() <= tol {
            return Some((if neg { -p1 } else { p1 }, q1));
        }
        let fr = r - a;
        if fr == 0.0 {
            return None;
        }
        r = 1.0 / fr;
    }
    None
}
pub fn f_recognise(x: f64, u: Unit, tol_rel: f64) -> Option<Sym> {
    if !x.is_finite() {
        return None;
    }
    let (b0, b1, b2) = base_f64(u);
    let tol = tol_rel * x.abs().max(b0);
    let mut ks: Vec<(i64, i64)> = Vec::new();
    for k1 in -K1MAX..=K1MAX {
        for k2 in -K2MAX..=K2MAX {
            ks.push((k1, k2));
        }
    }
    ks.sort_by_key(|k| k.0.abs() + 4 * k.1.abs());
    for (k1, k2) in ks {
        let z = (x - k1 as f64 * b1 - k2 as f64 * b2) / b0;
        if let Some((p, q)) = snap_small(z, ADMAX, tol / b0) {
            if p.abs() <= 1_000_000 {
                let g = gcd(p as i128, q as i128).max(1) as i64;
                return Some(Sym { an: p / g, ad: q / g, k1, k2 });
            }
        }
    }
    None
}
pub fn snap_rat(x: f64, maxden: i64, tol_rel: f64) -> Option<(i64, i64)> {
    if x == 0.0 {
        return Some((0, 1));
    }
    let r = snap_small(x, maxden, tol_rel * x.abs().max(1.0))?;
    if r.0.abs() > (1 << 30) {
        return None;
    }
    Some(r)
}
