//! Generates one direct call per swizzle accessor (550 call sites): every word over the
//! type's component letters, length 1-4 for vectors and 1-3 for points.  Written
//! independently of cgmath's own build.rs; a missing accessor is a build failure.
use std::io::Write;
fn words(letters: &str, maxlen: usize) -> Vec<String> {
    let mut out: Vec<String> = Vec::new();
    let mut cur: Vec<String> = vec![String::new()];
    for _ in 0..maxlen {
        let mut next = Vec::new();
        for w in &cur { for c in letters.chars() { let mut n = w.clone(); n.push(c); next.push(n); } }
        out.extend(next.iter().cloned());
        cur = next;
    }
    out
}
fn main() {
    let out = std::env::var("OUT_DIR").unwrap();
    let mut f = std::fs::File::create(std::path::Path::new(&out).join("swizzle_gen.rs")).unwrap();
    writeln!(f, "pub fn swizzle<S: crate::sc::Sc>(a: &[Val<S>]) -> Option<Val<S>> {{").unwrap();
    writeln!(f, "    let w = match a.get(1) {{ Some(Val::T(w)) => w.as_str(), _ => return None }};").unwrap();
    writeln!(f, "    Some(match (&a[0], w) {{").unwrap();
    let mut count = 0;
    for (variant, letters, maxlen, res) in [("V1", "x", 4, "V"), ("V2", "xy", 4, "V"), ("V3", "xyz", 4, "V"), ("V4", "xyzw", 4, "V"),
                                           ("P1", "x", 3, "P"), ("P2", "xy", 3, "P"), ("P3", "xyz", 3, "P")] {
        for w in words(letters, maxlen) {
            writeln!(f, "        (Val::{}(v), \"{}\") => Val::{}{}(v.{}()),", variant, w, res, w.len(), w).unwrap();
            count += 1;
        }
    }
    writeln!(f, "        _ => return None,").unwrap();
    writeln!(f, "    }})\n}}\npub const SWIZZLE_COUNT: usize = {};", count).unwrap();
    println!("cargo:rerun-if-changed=build.rs");
}
