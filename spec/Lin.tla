------------------------------- MODULE Lin -------------------------------
(* Vectors are sequences of rationals; matrices are sequences of COLUMNS,   *)
(* M[c][r] — the column-major convention property C01 is about.            *)
(* Everything here is written from the mathematical definition, not from   *)
(* the Rust code (the code's algorithms are transcribed in Fn*.tla).       *)
EXTENDS Rat, FiniteSets, FiniteSetsExt

RECURSIVE SumSeq(_)
SumSeq(s) == IF s = <<>> THEN Zero ELSE RAdd(Head(s), SumSeq(Tail(s)))
RECURSIVE ProdSeq(_)
ProdSeq(s) == IF s = <<>> THEN One ELSE RMul(Head(s), ProdSeq(Tail(s)))

VZero(n)     == [i \in 1..n |-> Zero]
VConst(n, k) == [i \in 1..n |-> k]
VUnit(n, j)  == [i \in 1..n |-> IF i = j THEN One ELSE Zero]
VAdd(u, v)   == [i \in 1..Len(u) |-> RAdd(u[i], v[i])]
VSub(u, v)   == [i \in 1..Len(u) |-> RSub(u[i], v[i])]
VNeg(u)      == [i \in 1..Len(u) |-> RNeg(u[i])]
VScale(u, k) == [i \in 1..Len(u) |-> RMul(u[i], k)]
VMulE(u, v)  == [i \in 1..Len(u) |-> RMul(u[i], v[i])]
Dot(u, v)    == SumSeq([i \in 1..Len(u) |-> RMul(u[i], v[i])])
Mag2(u)      == Dot(u, u)
Cross(u, v)  == << RSub(RMul(u[2], v[3]), RMul(u[3], v[2])),
                   RSub(RMul(u[3], v[1]), RMul(u[1], v[3])),
                   RSub(RMul(u[1], v[2]), RMul(u[2], v[1])) >>
PerpDot(u, v) == RSub(RMul(u[1], v[2]), RMul(u[2], v[1]))
IsZeroVec(u) == \A i \in 1..Len(u) : u[i] = Zero

Dim(M)       == Len(M)
Col(M, c)    == M[c]
Row(M, r)    == [c \in 1..Len(M) |-> M[c][r]]
MZero(n)     == [c \in 1..n |-> VZero(n)]
Id(n)        == [c \in 1..n |-> VUnit(n, c)]
Diag(v)      == [c \in 1..Len(v) |-> [r \in 1..Len(v) |-> IF r = c THEN v[c] ELSE Zero]]
MAdd(A, B)   == [c \in 1..Len(A) |-> VAdd(A[c], B[c])]
MSub(A, B)   == [c \in 1..Len(A) |-> VSub(A[c], B[c])]
MNeg(A)      == [c \in 1..Len(A) |-> VNeg(A[c])]
MScale(A, k) == [c \in 1..Len(A) |-> VScale(A[c], k)]
MMap(A, F(_)) == [c \in 1..Len(A) |-> [r \in 1..Len(A[c]) |-> F(A[c][r])]]
VMap(u, F(_)) == [i \in 1..Len(u) |-> F(u[i])]
\* A*v = sum over c of column c of A scaled by v[c]          (C01)
RECURSIVE LinComb(_, _, _)
LinComb(A, v, c) == IF c = 0 THEN VZero(Len(A[1])) ELSE VAdd(LinComb(A, v, c - 1), VScale(A[c], v[c]))
MulMV(A, v)  == LinComb(A, v, Len(A))
\* column c of A*B = A*(column c of B)                         (C01)
MulMM(A, B)  == [c \in 1..Len(B) |-> MulMV(A, B[c])]
Transpose(A) == [c \in 1..Len(A[1]) |-> Row(A, c)]
Diagonal(A)  == [i \in 1..Len(A) |-> A[i][i]]
Trace(A)     == SumSeq(Diagonal(A))

\* permutations of 1..n as sequences, with their signs: the Leibniz expansion  (C02)
PermsOf(n) == {p \in [1..n -> 1..n] : \A i, j \in 1..n : i # j => p[i] # p[j]}
Inversions(p) == Cardinality({ij \in (1..Len(p)) \X (1..Len(p)) : ij[1] < ij[2] /\ p[ij[1]] > p[ij[2]]})
PermSign(p) == IF Inversions(p) % 2 = 0 THEN 1 ELSE -1
Perms2 == PermsOf(2)
Perms3 == PermsOf(3)
Perms4 == PermsOf(4)
PermsN(n) == CASE n = 1 -> PermsOf(1) [] n = 2 -> Perms2 [] n = 3 -> Perms3 [] n = 4 -> Perms4
Det(M) == LET n == Len(M)
              Term(p) == RMul(R(PermSign(p)), ProdSeq([c \in 1..n |-> M[c][p[c]]]))
          IN  FoldSet(LAMBDA p, acc : RAdd(Term(p), acc), Zero, PermsN(n))

\* block embedding of an m x m matrix in the top-left corner of the n x n identity  (C01)
Embed(A, n) == [c \in 1..n |-> [r \in 1..n |->
                  IF c <= Len(A) /\ r <= Len(A) THEN A[c][r] ELSE IF c = r THEN One ELSE Zero]]
\* matrix given as a flat column-major list                                           (C01)
FromFlat(s, n) == [c \in 1..n |-> [r \in 1..n |-> s[(c - 1) * n + r]]]
Flat(M) == LET n == Len(M) IN [i \in 1..(n * n) |-> M[((i - 1) \div n) + 1][((i - 1) % n) + 1]]
Swap(s, i, j) == [k \in 1..Len(s) |-> IF k = i THEN s[j] ELSE IF k = j THEN s[i] ELSE s[k]]
=============================================================================
