--------------------------------- MODULE Fn ---------------------------------
(* Transcriptions of the algorithms cgmath uses today, line by line (same   *)
(* operation order, same branch conditions, same thresholds).  They are     *)
(* NEVER the acceptance oracle for the code: TLC uses them (a) to check     *)
(* that the algorithm meets the contract in Api*.tla on enumerated domains  *)
(* (ImplMeetsContract in the MC modules), with a counterexample when it     *)
(* does not, (b) to aim generated inputs at every branch, (c) as            *)
(* documentation.  If upstream replaces an algorithm and the property still *)
(* holds, only these go stale; no alarm is raised.                          *)
(* Source line references are to /repo/src at the pinned commit.            *)
EXTENDS Api

\* ------------------------------------------------------------ matrix.rs: products
\* Matrix2/3 * Matrix: entry (c, r) = row(r) . column c of rhs        (matrix.rs impl Mul<Matrix2/3>)
\* Matrix * Vector:    entry r = row(r) . v                              (impl_mv_operator)
FnMulMV(A, v) == [r \in 1..Len(A) |-> Dot(Row(A, r), v)]
FnMulMMrow(A, B) == [c \in 1..Len(B) |-> [r \in 1..Len(A) |-> Dot(Row(A, r), B[c])]]
\* Matrix4 * Matrix4: column c = a*rhs[c][0] + b*rhs[c][1] + c*rhs[c][2] + d*rhs[c][3]
FnMulMM4(A, B) == [c \in 1..4 |-> VAdd(VAdd(VAdd(VScale(A[1], B[c][1]), VScale(A[2], B[c][2])), VScale(A[3], B[c][3])), VScale(A[4], B[c][4]))]
FnMulMM(A, B) == IF Len(A) = 4 THEN FnMulMM4(A, B) ELSE FnMulMMrow(A, B)

\* ------------------------------------------------------------ matrix.rs: determinant
FnDet2(M) == RSub(RMul(M[1][1], M[2][2]), RMul(M[2][1], M[1][2]))
FnDet3(M) == RAdd(RSub(RMul(M[1][1], RSub(RMul(M[2][2], M[3][3]), RMul(M[3][2], M[2][3]))),
                       RMul(M[2][1], RSub(RMul(M[1][2], M[3][3]), RMul(M[3][2], M[1][3])))),
                  RMul(M[3][1], RSub(RMul(M[1][2], M[2][3]), RMul(M[2][2], M[1][3]))))
\* det_sub_proc_unsafe(m, x, y, z) over the flat 16-array s (0-based in the code, +1 here), lane by lane
DetSubProc(M, x, y, z) ==
  LET s == Flat(M)
      g(i) == s[i + 1]
      a == <<g(4 + x), g(12 + x), g(x), g(8 + x)>>
      b == <<g(8 + y), g(8 + y), g(4 + y), g(4 + y)>>
      c == <<g(12 + z), g(z), g(12 + z), g(z)>>
      d == <<g(8 + x), g(8 + x), g(4 + x), g(4 + x)>>
      e == <<g(12 + y), g(y), g(12 + y), g(y)>>
      f == <<g(4 + z), g(12 + z), g(z), g(8 + z)>>
      gg == <<g(12 + x), g(x), g(12 + x), g(x)>>
      h == <<g(4 + y), g(12 + y), g(y), g(8 + y)>>
      i == <<g(8 + z), g(8 + z), g(4 + z), g(4 + z)>>
      t1 == VMulE(a, VMulE(b, c))
      t2 == VAdd(t1, VMulE(d, VMulE(e, f)))
      t3 == VAdd(t2, VMulE(gg, VMulE(h, i)))
      t4 == VSub(t3, VMulE(a, VMulE(e, i)))
      t5 == VSub(t4, VMulE(d, VMulE(h, c)))
  IN  VSub(t5, VMulE(gg, VMulE(b, f)))
FnDet4(M) == Dot(DetSubProc(M, 1, 2, 3), <<M[1][1], M[2][1], M[3][1], M[4][1]>>)
FnDet(M) == CASE Len(M) = 2 -> FnDet2(M) [] Len(M) = 3 -> FnDet3(M) [] Len(M) = 4 -> FnDet4(M)

\* ------------------------------------------------------------ matrix.rs: invert
NoneVal == V("None", <<>>)
SomeMat(M) == V("Some", <<V("Mat", M)>>)
FnInv2(M) == LET det == FnDet2(M) IN
  IF det = Zero THEN NoneVal
  ELSE SomeMat(<< <<RDiv(M[2][2], det), RDiv(RNeg(M[1][2]), det)>>, <<RDiv(RNeg(M[2][1]), det), RDiv(M[1][1], det)>> >>)
FnInv3(M) == LET det == FnDet3(M) IN
  IF det = Zero THEN NoneVal
  ELSE SomeMat(Transpose(<< VMap(Cross(M[2], M[3]), LAMBDA x : RDiv(x, det)),
                            VMap(Cross(M[3], M[1]), LAMBDA x : RDiv(x, det)),
                            VMap(Cross(M[1], M[2]), LAMBDA x : RDiv(x, det)) >>))
\* Vector4::truncate_n(n): drop component n (0-based)
TruncN(v, n) == [i \in 1..3 |-> v[IF i <= n THEN i ELSE i + 1]]
FnInv4(M) == LET det == FnDet4(M) IN
  IF det = Zero THEN NoneVal
  ELSE LET invdet == RDiv(One, det)
           t == Transpose(M)
           cf(i, j) == LET cols == CASE i = 0 -> <<2, 3, 4>> [] i = 1 -> <<1, 3, 4>> [] i = 2 -> <<1, 2, 4>> [] i = 3 -> <<1, 2, 3>>
                           mat == [k \in 1..3 |-> TruncN(t[cols[k]], j)]
                           sign == IF (i + j) % 2 = 1 THEN R(-1) ELSE One
                       IN  RMul(RMul(FnDet3(mat), sign), invdet)
       IN SomeMat([c \in 1..4 |-> [r \in 1..4 |-> cf(c - 1, r - 1)]])
FnInvert(M) == CASE Len(M) = 2 -> FnInv2(M) [] Len(M) = 3 -> FnInv3(M) [] Len(M) = 4 -> FnInv4(M)
\* transpose_self by pairwise swap_elements
FnTransposeSelf(M) == [c \in 1..Len(M) |-> [r \in 1..Len(M) |-> M[r][c]]]

\* ------------------------------------------------------------ quaternion.rs
\* From<Quaternion> for Matrix3: x2 = x + x, xx2 = x2 * x, ...
FnMat3FromQuat(q) ==
  LET s == q[1] x == q[2] y == q[3] z == q[4]
      x2 == RAdd(x, x) y2 == RAdd(y, y) z2 == RAdd(z, z)
      xx2 == RMul(x2, x) xy2 == RMul(x2, y) xz2 == RMul(x2, z)
      yy2 == RMul(y2, y) yz2 == RMul(y2, z) zz2 == RMul(z2, z)
      sy2 == RMul(y2, s) sz2 == RMul(z2, s) sx2 == RMul(x2, s)
  IN << << RSub(RSub(One, yy2), zz2), RAdd(xy2, sz2), RSub(xz2, sy2) >>,
        << RSub(xy2, sz2), RSub(RSub(One, xx2), zz2), RAdd(yz2, sx2) >>,
        << RAdd(xz2, sy2), RSub(yz2, sx2), RSub(RSub(One, xx2), yy2) >> >>
\* From<Matrix3> for Quaternion: four branches; mat[c][r] in the code is M[c+1][r+1] here.
\* Exact when the radicand is a rational square (always, for the matrix of a rational unit quaternion).
QuatBranch(M) == IF RGe(Trace(M), Zero) THEN 0
                 ELSE IF RGt(M[1][1], M[2][2]) /\ RGt(M[1][1], M[3][3]) THEN 1
                 ELSE IF RGt(M[2][2], M[3][3]) THEN 2 ELSE 3
QuatRadicand(M) == CASE QuatBranch(M) = 0 -> RAdd(One, Trace(M))
                     [] QuatBranch(M) = 1 -> RAdd(RSub(RSub(M[1][1], M[2][2]), M[3][3]), One)
                     [] QuatBranch(M) = 2 -> RAdd(RSub(RSub(M[2][2], M[1][1]), M[3][3]), One)
                     [] QuatBranch(M) = 3 -> RAdd(RSub(RSub(M[3][3], M[1][1]), M[2][2]), One)
FnQuatFromMat3(M) ==
  LET s0 == RSqrt(QuatRadicand(M))  h == RMul(Half, s0)  s == RDiv(Half, s0) IN
  CASE QuatBranch(M) = 0 -> << h, RMul(RSub(M[2][3], M[3][2]), s), RMul(RSub(M[3][1], M[1][3]), s), RMul(RSub(M[1][2], M[2][1]), s) >>
    [] QuatBranch(M) = 1 -> << RMul(RSub(M[2][3], M[3][2]), s), h, RMul(RAdd(M[2][1], M[1][2]), s), RMul(RAdd(M[1][3], M[3][1]), s) >>
    [] QuatBranch(M) = 2 -> << RMul(RSub(M[3][1], M[1][3]), s), RMul(RAdd(M[2][1], M[1][2]), s), h, RMul(RAdd(M[3][2], M[2][3]), s) >>
    [] QuatBranch(M) = 3 -> << RMul(RSub(M[1][2], M[2][1]), s), RMul(RAdd(M[1][3], M[3][1]), s), RMul(RAdd(M[3][2], M[2][3]), s), h >>
\* Quaternion * Vector3:  tmp = v x rhs + rhs * s;  (v x tmp) * 2 + rhs
FnQRot(q, v) == LET qv == QVec(q)  tmp == VAdd(Cross(qv, v), VScale(v, q[1])) IN VAdd(VScale(Cross(qv, tmp), Two), v)
FnQInvert(q) == VMap(QConj(q), LAMBDA x : RDiv(x, Mag2(q)))

\* ------------------------------------------------------------ matrix.rs: rotation constructors
FnFromAxisAngle(ax, g) ==
  LET s == Sin(g)  c == Cos(g)  k == RSub(One, c)  x == ax[1]  y == ax[2]  z == ax[3] IN
  << << RAdd(RMul(RMul(k, x), x), c), RAdd(RMul(RMul(k, x), y), RMul(s, z)), RSub(RMul(RMul(k, x), z), RMul(s, y)) >>,
     << RSub(RMul(RMul(k, x), y), RMul(s, z)), RAdd(RMul(RMul(k, y), y), c), RAdd(RMul(RMul(k, y), z), RMul(s, x)) >>,
     << RAdd(RMul(RMul(k, x), z), RMul(s, y)), RSub(RMul(RMul(k, y), z), RMul(s, x)), RAdd(RMul(RMul(k, z), z), c) >> >>
FnFromAngleX(g) == << <<One, Zero, Zero>>, <<Zero, Cos(g), Sin(g)>>, <<Zero, RNeg(Sin(g)), Cos(g)>> >>
FnFromAngleY(g) == << <<Cos(g), Zero, RNeg(Sin(g))>>, <<Zero, One, Zero>>, <<Sin(g), Zero, Cos(g)>> >>
FnFromAngleZ(g) == << <<Cos(g), Sin(g), Zero>>, <<RNeg(Sin(g)), Cos(g), Zero>>, <<Zero, Zero, One>> >>
\* From<Euler> for Matrix3
FnMat3FromEuler(e) ==
  LET sx == Sin(e[1]) cx == Cos(e[1]) sy == Sin(e[2]) cy == Cos(e[2]) sz == Sin(e[3]) cz == Cos(e[3]) IN
  << << RMul(cy, cz), RAdd(RMul(cx, sz), RMul(RMul(sx, sy), cz)), RSub(RMul(sx, sz), RMul(RMul(cx, sy), cz)) >>,
     << RMul(RNeg(cy), sz), RSub(RMul(cx, cz), RMul(RMul(sx, sy), sz)), RAdd(RMul(sx, cz), RMul(RMul(cx, sy), sz)) >>,
     << sy, RMul(RNeg(sx), cy), RMul(cx, cy) >> >>
\* From<Euler> for Quaternion, half angles h = e/2 (must be table angles)
FnQuatFromEuler(e) ==
  LET hx == HalfAngle(e[1]) hy == HalfAngle(e[2]) hz == HalfAngle(e[3])
      sx == Sin(hx) cx == Cos(hx) sy == Sin(hy) cy == Cos(hy) sz == Sin(hz) cz == Cos(hz) IN
  << RAdd(RMul(RMul(RNeg(sx), sy), sz), RMul(RMul(cx, cy), cz)),
     RAdd(RMul(RMul(sx, cy), cz), RMul(RMul(sy, sz), cx)),
     RAdd(RMul(RMul(RNeg(sx), sz), cy), RMul(RMul(sy, cx), cz)),
     RAdd(RMul(RMul(sx, sy), cz), RMul(RMul(sz, cx), cy)) >>
\* Quaternion::from_axis_angle: (cos(t/2), axis * sin(t/2))
FnQuatFromAxisAngle(ax, g) == LET h == HalfAngle(g) IN <<Cos(h)>> \o VScale(ax, Sin(h))

\* ------------------------------------------------------------ euler.rs: From<Quaternion> for Euler<Rad>
\* the inverse trigonometric calls are relational: any table angle satisfying Atan2Is / AsinIs
EulerAngles == {<<an, 1, k1, 0>> : an \in -2..2, k1 \in -4..4}
PickAtan2(y, x) == CHOOSE g \in EulerAngles : Atan2Is(g, y, x)
HasAtan2(y, x) == \E g \in EulerAngles : Atan2Is(g, y, x)
PickAsin(v) == CHOOSE g \in EulerAngles : AsinIs(g, v)
HasAsin(v) == \E g \in EulerAngles : AsinIs(g, v)
EulerBranch(q) == LET unit == Mag2(q)  test == RAdd(RMul(q[2], q[4]), RMul(q[3], q[1])) IN
                  IF RGt(test, RMul(<<499, 1000>>, unit)) THEN "north"
                  ELSE IF RLt(test, RMul(<<-499, 1000>>, unit)) THEN "south" ELSE "regular"
FnEulerFromQuat(q) ==
  LET qw == q[1] qx == q[2] qy == q[3] qz == q[4]
      sqx == RSq(qx) sqy == RSq(qy) sqz == RSq(qz) IN
  CASE EulerBranch(q) = "north" -> << AZero, AQuarters(One), AScale(PickAtan2(qx, qw), Two) >>
    [] EulerBranch(q) = "south" -> << AZero, AQuarters(R(-1)), AScale(ANeg(PickAtan2(qx, qw)), Two) >>
    [] EulerBranch(q) = "regular" ->
         << PickAtan2(RMul(Two, RAdd(RMul(RNeg(qy), qz), RMul(qx, qw))), RSub(One, RMul(Two, RAdd(sqx, sqy)))),
            PickAsin(RMul(Two, RAdd(RMul(qx, qz), RMul(qy, qw)))),
            PickAtan2(RMul(Two, RAdd(RMul(RNeg(qx), qy), RMul(qz, qw))), RSub(One, RMul(Two, RAdd(sqy, sqz)))) >>
EulerExtractable(q) ==
  LET qw == q[1] qx == q[2] qy == q[3] qz == q[4] IN
  IF EulerBranch(q) # "regular" THEN HasAtan2(qx, qw) /\ Abs(PickAtan2(qx, qw)[3]) <= 4
  ELSE /\ HasAtan2(RMul(Two, RAdd(RMul(RNeg(qy), qz), RMul(qx, qw))), RSub(One, RMul(Two, RAdd(RSq(qx), RSq(qy)))))
       /\ HasAsin(RMul(Two, RAdd(RMul(qx, qz), RMul(qy, qw))))
       /\ HasAtan2(RMul(Two, RAdd(RMul(RNeg(qx), qy), RMul(qz, qw))), RSub(One, RMul(Two, RAdd(RSq(qy), RSq(qz)))))

\* ------------------------------------------------------------ transform.rs: Decomposed
FnDecConcat(x, y) == DecV(RMul(DecScale(x), DecScale(y)),
                          IF DecRot(x).t = "Quat" THEN V("Quat", QMul(DecRot(x).c, DecRot(y).c)) ELSE V("Basis", MulMM(DecRot(x).c, DecRot(y).c)),
                          VAdd(RotApply(DecRot(x), VScale(DecDisp(y), DecScale(x))), DecDisp(x)))
FnRotInvert(rot) == IF rot.t = "Quat" THEN V("Quat", FnQInvert(rot.c)) ELSE V("Basis", FnInvert(rot.c).c[1].c)
FnDecInverse(x) == IF DecScale(x) = Zero THEN NoneVal
                   ELSE LET s == RDiv(One, DecScale(x))  r == FnRotInvert(DecRot(x)) IN
                        V("Some", <<DecV(s, r, VScale(RotApply(r, DecDisp(x)), RNeg(s)))>>)
FnDecPoint(x, p) == VAdd(RotApply(DecRot(x), VScale(p, DecScale(x))), DecDisp(x))

\* ------------------------------------------------------------ projection.rs
FnOrtho(l, r, b, t, n, f) ==
  << <<RDiv(Two, RSub(r, l)), Zero, Zero, Zero>>, <<Zero, RDiv(Two, RSub(t, b)), Zero, Zero>>,
     <<Zero, Zero, RDiv(R(-2), RSub(f, n)), Zero>>,
     <<RDiv(RNeg(RAdd(r, l)), RSub(r, l)), RDiv(RNeg(RAdd(t, b)), RSub(t, b)), RDiv(RNeg(RAdd(f, n)), RSub(f, n)), One>> >>
FnFrustum(l, r, b, t, n, f) ==
  IF RGt(l, r) \/ RGt(b, t) \/ RGt(n, f) THEN PanicV
  ELSE V("Mat", << <<RDiv(RMul(Two, n), RSub(r, l)), Zero, Zero, Zero>>, <<Zero, RDiv(RMul(Two, n), RSub(t, b)), Zero, Zero>>,
                   <<RDiv(RAdd(r, l), RSub(r, l)), RDiv(RAdd(t, b), RSub(t, b)), RDiv(RNeg(RAdd(f, n)), RSub(f, n)), R(-1)>>,
                   <<Zero, Zero, RDiv(RNeg(RMul(RMul(Two, f), n)), RSub(f, n)), Zero>> >>)
FnPerspective(g, asp, n, f) ==
  IF ~(ACmp(g, R(0)) = 1) \/ ~(ACmp(g, R(2)) = -1) \/ asp = Zero \/ ~RGt(n, Zero) \/ ~RGt(f, Zero) \/ f = n THEN PanicV
  ELSE LET ft == RDiv(One, Tan(HalfAngle(g))) IN
       V("Mat", << <<RDiv(ft, asp), Zero, Zero, Zero>>, <<Zero, ft, Zero, Zero>>,
                   <<Zero, Zero, RDiv(RAdd(f, n), RSub(n, f)), R(-1)>>,
                   <<Zero, Zero, RDiv(RMul(RMul(Two, f), n), RSub(n, f)), Zero>> >>)
FnPlanar(g, asp, h, n, f) ==
  IF ~(ACmp(g, R(-2)) = 1) \/ ~(ACmp(g, R(2)) = -1) \/ RLt(h, Zero) THEN PanicV
  ELSE LET invf == RDiv(RMul(Tan(HalfAngle(g)), Two), h)
           focal == RNeg(RDiv(One, invf)) IN
       IF asp = Zero \/ f = n THEN PanicV
       ELSE IF invf # Zero /\ ~(RLt(focal, RMin(f, n)) \/ RGt(focal, RMax(f, n))) THEN PanicV
       ELSE V("Mat", << <<RDiv(Two, RMul(asp, h)), Zero, Zero, Zero>>, <<Zero, RDiv(Two, h), Zero, Zero>>,
                        <<Zero, Zero, RDiv(RAdd(RMul(RAdd(f, n), invf), Two), RSub(n, f)), RNeg(invf)>>,
                        <<Zero, Zero, RDiv(RAdd(RMul(RMul(RMul(Two, f), n), invf), RAdd(f, n)), RSub(n, f)), One>> >>)


\* ------------------------------------------------------------ normalisation-based constructors (exact frames: every radicand a rational square)
FnMagnitude(v) == RSqrt(Mag2(v))
FnNormalizeV(v) == VScale(v, RDiv(One, FnMagnitude(v)))
ExactNorm(v) == RIsSquare(Mag2(v)) /\ Mag2(v) # Zero
\* Matrix3::look_to_lh: dir = dir.normalize(); side = up.cross(dir).normalize(); up = dir.cross(side).normalize(); from_cols(side, up, dir).transpose()
FnLookToLh(dir, up) == LET d == FnNormalizeV(dir)  side == FnNormalizeV(Cross(up, d))  u2 == FnNormalizeV(Cross(d, side)) IN Transpose(<<side, u2, d>>)
FnLookToRh(dir, up) == FnLookToLh(VNeg(dir), up)
LookExact(dir, up) == ExactNorm(dir) /\ ExactNorm(Cross(up, FnNormalizeV(dir)))
\* Matrix4::look_to_rh: f = dir.normalize(); s = f.cross(up).normalize(); u = s.cross(f)
FnLookToRh4(eye, dir, up) ==
  LET f == FnNormalizeV(dir)  s == FnNormalizeV(Cross(f, up))  u == Cross(s, f) IN
  << <<s[1], u[1], RNeg(f[1]), Zero>>, <<s[2], u[2], RNeg(f[2]), Zero>>, <<s[3], u[3], RNeg(f[3]), Zero>>,
     <<RNeg(Dot(eye, s)), RNeg(Dot(eye, u)), Dot(eye, f), One>> >>
FnLookToLh4(eye, dir, up) == FnLookToRh4(eye, VNeg(dir), up)
\* Matrix2::look_at: flip = up.x * dir.y >= up.y * dir.x; basis1 = dir.normalize(); basis2 = flip ? (b1.y, -b1.x) : (-b1.y, b1.x)
FnLookAt2(dir, up) == LET b1 == FnNormalizeV(dir)  flip == RGe(RMul(up[1], dir[2]), RMul(up[2], dir[1])) IN
                      <<b1, IF flip THEN <<b1[2], RNeg(b1[1])>> ELSE <<RNeg(b1[2]), b1[1]>> >>

\* ------------------------------------------------------------ quaternion.rs: between_vectors (unit a, b), in square-root form
\* Quaternion::from_sv(k + k_cos_theta, a.cross(b)).normalize(), k = sqrt(|a|^2 |b|^2) = 1
SurdOf(x, n) == IF x = Zero THEN Zero ELSE <<RSgn(x), RDiv(RSq(x), n)[1], RDiv(RSq(x), n)[2]>>     \* x / sqrt(n)
FnBetweenQuat(a, b) ==
  LET c == Dot(a, b) IN
  IF c = One THEN QOne
  ELSE IF c = R(-1) THEN LET o1 == Cross(a, VUnit(3, 1))  o == IF Mag2(o1) = Zero THEN Cross(a, VUnit(3, 2)) ELSE o1 IN
                         <<Zero>> \o [i \in 1..3 |-> SurdOf(o[i], Mag2(o))]
  ELSE LET w == RAdd(One, c)  x == Cross(a, b)  n == RAdd(RSq(w), Mag2(x)) IN
       <<SurdOf(w, n)>> \o [i \in 1..3 |-> SurdOf(x[i], n)]
\* Basis2::between_vectors after the fix: from_angle(atan2(perp_dot(a, b), dot(a, b))); for unit a, b the rotation matrix is
FnBetween2(a, b) == LET c == Dot(a, b)  s == PerpDot(a, b) IN << <<c, s>>, <<RNeg(s), c>> >>
\* before the fix: from_angle(acos(a . b)) always turns counter-clockwise: sin = +sqrt(1 - c^2)
FnBetween2Old(a, b) == LET c == Dot(a, b)  s == RSqrt(RSub(One, RSq(c))) IN << <<c, s>>, <<RNeg(s), c>> >>

\* ------------------------------------------------------------ quaternion.rs: slerp away from the hand-over (table angles)
FnSlerp(a, b, t, g) ==   \* g: the table angle acos(|a . b|); weights sin((1 - t) g), sin(t g); normalised (the norm is sin g)
  LET b2 == IF RLt(Dot(a, b), Zero) THEN VNeg(b) ELSE b
      s1 == Sin(AScale(g, RSub(One, t)))  s2 == Sin(AScale(g, t))
      w == VAdd(VScale(a, s1), VScale(b2, s2)) IN
  VScale(w, RDiv(One, RSqrt(Mag2(w))))

\* ------------------------------------------------------------ structure.rs: Angle defaults (k-free angles, in quarter turns)
FnNormalize(q) == LET rem == RRem(q, R(4)) IN IF RLt(rem, Zero) THEN RAdd(rem, R(4)) ELSE rem
FnNormalizeSigned(q) == LET rem == FnNormalize(q) IN IF RLt(R(2), rem) THEN RSub(rem, R(4)) ELSE rem
FnOpposite(q) == FnNormalize(RAdd(q, R(2)))
\* after the fix:  normalize(self + normalize_signed(other - self) * 0.5)
FnBisect(a, b) == FnNormalize(RAdd(a, RMul(FnNormalizeSigned(RSub(b, a)), Half)))
\* before the fix (kept as the regression the design check must reject): normalize((self - other) * 0.5 + self)
FnBisectOld(a, b) == FnNormalize(RAdd(RMul(RSub(a, b), Half), a))
=============================================================================
