-------------------------------- MODULE Api --------------------------------
(* The op table of the cgmath abstract machine: one contract Rel per public *)
(* entry point.  Rel(op, k, f, a, r): calling `op` (operand form f) at scalar  *)
(* kind k on the argument values a may return r.  Functional ops: r = Fn(...).            *)
EXTENDS ApiMisc

Rel(op, k, f, a, r) ==
  IF op \in LinRelOps THEN LinRel(op, k, a, r)
  ELSE IF op \in MiscRelOps THEN MiscRel(op, k, f, a, r)
  ELSE LET e0 == ViewFn(op, k, a) IN
       IF e0 # Undef THEN Same(r, e0)
  ELSE LET e1 == LinFn(op, k, a) IN
       IF e1 # Undef THEN Same(r, e1)
       ELSE LET e2 == GeoFn(op, k, a) IN
            IF e2 # Undef THEN Same(r, e2)
            ELSE GeoRel(op, k, f, a, r)
=============================================================================
