-------------------------------- MODULE Api --------------------------------
(* The op table of the cgmath abstract machine: one contract Rel per public *)
(* entry point.  Rel(op, k, a, r): calling `op` at scalar kind k on the     *)
(* argument values a may return r.  Functional ops: r = Fn(...).            *)
EXTENDS ApiLin

Rel(op, k, a, r) ==
  IF op \in LinRelOps THEN LinRel(op, k, a, r)
  ELSE LET e == LinFn(op, k, a) IN
       IF e # Undef THEN Same(r, e)
       ELSE FALSE
=============================================================================
