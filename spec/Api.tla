-------------------------------- MODULE Api --------------------------------
(* The op table of the cgmath abstract machine: one contract Rel per public *)
(* entry point.  Rel(op, k, f, a, r): calling `op` (operand form f) at scalar  *)
(* kind k on the argument values a may return r.  Functional ops: r = Fn(...).            *)
EXTENDS ApiGeo

Rel(op, k, f, a, r) ==
  IF op \in LinRelOps THEN LinRel(op, k, a, r)
  ELSE LET e1 == LinFn(op, k, a) IN
       IF e1 # Undef THEN Same(r, e1)
       ELSE LET e2 == GeoFn(op, k, a) IN
            IF e2 # Undef THEN Same(r, e2)
            ELSE GeoRel(op, k, f, a, r)
=============================================================================
