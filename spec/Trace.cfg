INIT TraceInit
NEXT TraceNext
INVARIANT Conforms
POSTCONDITION Accepted
CHECK_DEADLOCK FALSE
