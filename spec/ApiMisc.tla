------------------------------ MODULE ApiMisc ------------------------------
(* Position contracts: layout, views, indexing, conversions and swizzles   *)
(* (C16), approximate equality and predicates (C18), numeric cast (C19),   *)
(* serde structure and the Decomposed visitor (C20).                       *)
(*                                                                         *)
(* The position model: every compound value has a canonical component      *)
(* sequence  Canon(v) — vectors/points x,y,z,w; quaternions x,y,z,s (the    *)
(* scalar part LAST, although Quaternion::new takes it first); matrices     *)
(* column-major.  Every view exposes exactly this sequence.                 *)
EXTENDS ApiGeo

Tv(s) == V("T", <<s>>)
TupS(s) == V("Tup", [i \in 1..Len(s) |-> Sv(s[i])])
TupB(s) == V("Tup", [i \in 1..Len(s) |-> Bv(s[i])])

Canon(v) == CASE v.t \in {"Vec", "Pt"} -> v.c
              [] v.t = "Quat" -> <<v.c[2], v.c[3], v.c[4], v.c[1]>>
              [] v.t \in {"Mat", "Basis"} -> Flat(v.c)
              [] v.t = "S" -> v.c
              [] OTHER -> <<>>
FromCanon(tag, s) == CASE tag \in {"Vec", "Pt"} -> V(tag, s)
                       [] tag = "Quat" -> V("Quat", <<s[4], s[1], s[2], s[3]>>)
                       [] tag \in {"Mat", "Basis"} -> V(tag, FromFlat(s, ISqrt(Len(s))))
                       [] OTHER -> Undef
\* number of scalar positions of any compound value                                   (C18)
RECURSIVE NComps(_)
NComps(v) == CASE v.t \in {"Vec", "Pt", "Quat", "S"} -> Len(v.c)
               [] v.t \in {"Mat", "Basis"} -> Len(v.c) * Len(v.c)
               [] v.t \in {"Rad", "Deg"} -> 1
               [] v.t \in {"ERad", "EDeg"} -> 3
               [] v.t = "Dec" -> 1 + NComps(v.c[2]) + NComps(v.c[3])
               [] v.t \in {"Ortho", "Persp"} -> 6
               [] v.t = "PFov" -> 4
               [] v.t = "Planar" -> 5
               [] OTHER -> 0
\* scalar positions that the model can compute with (angles are symbolic, so not for them)
RECURSIVE CanonAll(_)
CanonAll(v) == IF v.t = "Dec" THEN v.c[1].c \o CanonAll(v.c[2]) \o CanonAll(v.c[3]) ELSE Canon(v)
HasCanonAll(v) == v.t \in {"Vec", "Pt", "Quat", "Mat", "Basis", "S", "Dec"}

Letters == <<"x", "y", "z", "w">>
RECURSIVE WordOf(_)
WordOf(ix) == IF ix = <<>> THEN "" ELSE Letters[Head(ix)] \o WordOf(Tail(ix))

AllB(s) == \A i \in 1..Len(s) : s[i].c[1]
IsBoolTup(x, n) == x.t = "Tup" /\ Len(x.c) = n /\ \A i \in 1..n : x.c[i].t = "B"

\* ------------------------------------------------------------------------ C16
ViewFn(op, k, a) ==
  LET tg == Tags(a)  n == Len(a) IN
  CASE op = "view_read" /\ n = 1 -> TupS(Canon(a[1]))
    [] op = "view_from" /\ n >= 3 /\ tg[1] = "T" /\ tg[2] = "T" ->
         FromCanon(TypeTag(Sc(a, 1)), [i \in 1..(n - 2) |-> Sc(a, i + 2)])
    [] op = "view_write" /\ n = 4 ->
         IF InRange(Sc(a, 3), Len(Canon(a[1])))
         THEN FromCanon(a[1].t, [Canon(a[1]) EXCEPT ![Sc(a, 3) + 1] = Sc(a, 4)])
         ELSE PanicV
    [] op = "index_range" /\ n = 4 ->
         LET s == Canon(a[1])  m == Len(s)  lo == Sc(a, 3)  hi == Sc(a, 4)  kind == Sc(a, 2) IN
         CASE kind = "range" -> IF lo >= 0 /\ lo <= hi /\ hi <= m THEN TupS(SubSeq(s, lo + 1, hi)) ELSE PanicV
           [] kind = "to" -> IF hi >= 0 /\ hi <= m THEN TupS(SubSeq(s, 1, hi)) ELSE PanicV
           [] kind = "from" -> IF lo >= 0 /\ lo <= m THEN TupS(SubSeq(s, lo + 1, m)) ELSE PanicV
           [] OTHER -> Undef
    [] op = "swap_elements" /\ tg \in {<<"Vec","I","I">>, <<"Pt","I","I">>} ->
         IF InRange(Sc(a, 2), Len(a[1].c)) /\ InRange(Sc(a, 3), Len(a[1].c))
         THEN V(tg[1], Swap(a[1].c, Sc(a, 2) + 1, Sc(a, 3) + 1)) ELSE PanicV
    [] op = "mat_ptr_read" /\ tg = <<"Mat">> -> TupS(Canon(a[1]))                               \* Matrix::as_ptr: column-major
    [] op = "mat_ptr_write" /\ tg = <<"Mat","I","S">> ->
         IF InRange(Sc(a, 2), Len(Canon(a[1]))) THEN FromCanon("Mat", [Canon(a[1]) EXCEPT ![Sc(a, 2) + 1] = Sc(a, 3)]) ELSE PanicV
    [] op = "bounded" /\ tg = <<"T">> -> Bv(TRUE)                                                \* Bounded is component-wise
    [] op = "map" /\ tg \in {<<"Vec","S">>, <<"Pt","S">>} -> MapC(a[1], LAMBDA x : RAdd(RAdd(x, x), Sc(a, 2)))
    [] op = "zip" /\ tg \in {<<"Vec","Vec">>, <<"Pt","Pt">>} -> ZipC(a[1], a[2], LAMBDA p, q : RAdd(RAdd(p, p), q))
    \* swizzle(X, word, i1, .., ik): the word must spell the letters of the indices, the result holds exactly those components
    [] op = "swizzle" /\ n >= 3 /\ tg[2] = "T" ->
         LET ix == [i \in 1..(n - 2) |-> Sc(a, i + 2)] IN
         IF Sc(a, 2) = WordOf(ix) /\ \A i \in 1..Len(ix) : ix[i] <= Len(a[1].c)
         THEN V(a[1].t, [i \in 1..Len(ix) |-> a[1].c[ix[i]]]) ELSE Undef
    [] OTHER -> Undef

\* ------------------------------------------------------------------------ C18
\* exact scalar semantics (scalar kind Q: tolerances are exact rationals, ulps degenerate to the absolute test)
ScalarVerdict(op, x, y, a) ==
  CASE op = "abs_diff_eq" -> RLe(RAbs(RSub(x, y)), Sc(a, 3))
    [] op = "ulps_eq" -> x = y \/ RLe(RAbs(RSub(x, y)), Sc(a, 3))
    [] op = "relative_eq" -> \/ x = y \/ RLe(RAbs(RSub(x, y)), Sc(a, 3))
                             \/ RLe(RAbs(RSub(x, y)), RMul(RMax(RAbs(x), RAbs(y)), Sc(a, 4)))
    [] op = "eq" -> x = y
ApproxOps == {"abs_diff_eq", "relative_eq", "ulps_eq", "eq"}
PredCount(op, x) == CASE op \in {"is_finite", "is_zero_approx"} -> NComps(x)
                      [] op = "is_identity" -> NComps(x)
                      [] op \in {"is_diagonal", "is_symmetric"} -> Len(x.c) * (Len(x.c) - 1)
                      [] op \in {"is_invertible", "is_perpendicular"} -> 1
PredOps == {"is_finite", "is_zero_approx", "is_identity", "is_diagonal", "is_symmetric", "is_invertible", "is_perpendicular"}
\* a compound comparison / predicate holds exactly when the scalar test holds at every position
ApproxRel(op, k, f, a, r) ==
  /\ r.t = "Tup" /\ Len(r.c) = 2 /\ r.c[1].t = "B"
  /\ LET n == IF f = "raw" THEN (IF Sc(a, 1) \in {"ERad", "EDeg"} THEN 3 ELSE 1)      \* angles / Euler triples built from raw numbers
               ELSE IF op \in ApproxOps THEN NComps(a[1]) ELSE PredCount(op, a[1]) IN
     /\ n > 0 /\ IsBoolTup(r.c[2], n)
     /\ r.c[1].c[1] = AllB(r.c[2].c)
     /\ (op \in ApproxOps /\ k = "Q" /\ f \notin {"default", "raw"} /\ HasCanonAll(a[1]) /\ a[1].t = a[2].t) =>
          LET xs == CanonAll(a[1])  ys == CanonAll(a[2]) IN
          Len(xs) = n /\ \A i \in 1..n : r.c[2].c[i].c[1] = ScalarVerdict(op, xs[i], ys[i], a)

\* ------------------------------------------------------------------------ C19
CastCount(name) == CASE name \in {"Vector1", "Point1"} -> 1 [] name \in {"Vector2", "Point2"} -> 2 [] name \in {"Vector3", "Point3"} -> 3
                     [] name \in {"Vector4", "Matrix2", "Quaternion"} -> 4 [] name = "Matrix3" -> 9 [] name = "Matrix4" -> 16 [] OTHER -> 0
\* cast(type, src, dst, tokens...) -> <<is_some, scalar_is_some per position, equal per position>>
CastRel(a, r) ==
  LET n == CastCount(Sc(a, 1)) IN
  /\ n > 0 /\ Len(a) = n + 3
  /\ r.t = "Tup" /\ Len(r.c) = 3 /\ r.c[1].t = "B" /\ IsBoolTup(r.c[2], n)
  /\ r.c[1].c[1] = AllB(r.c[2].c)                                   \* None iff at least one component fails
  /\ IF r.c[1].c[1] THEN IsBoolTup(r.c[3], n) /\ AllB(r.c[3].c)     \* each component is the scalar cast, in place
     ELSE r.c[3].t = "Tup"

\* ------------------------------------------------------------------------ C20
\* an object is listed as <<key1, subtree1, key2, subtree2, ..>> with the keys in alphabetical order
\* (serde_json::Value keeps maps sorted); the key sets below are the public field names
Obj(kv) == V("Tup", <<Tv("obj")>> \o kv)
Leaf(i) == Iv(i)
\* letters in alphabetical order: w sorts before x, y, z
LetterOrder(n) == CASE n = 1 -> <<1>> [] n = 2 -> <<1, 2>> [] n = 3 -> <<1, 2, 3>> [] n = 4 -> <<4, 1, 2, 3>>
VecShape(n, off) == LET o == LetterOrder(n) IN
                    Obj([i \in 1..(2 * n) |-> IF i % 2 = 1 THEN Tv(Letters[o[(i + 1) \div 2]]) ELSE Leaf(off + o[i \div 2])])
MatShape(n, off) == LET o == LetterOrder(n) IN
                    Obj([i \in 1..(2 * n) |-> IF i % 2 = 1 THEN Tv(Letters[o[(i + 1) \div 2]]) ELSE VecShape(n, off + n * (o[i \div 2] - 1))])
QuatShape(off) == Obj(<<Tv("s"), Leaf(off + 4), Tv("v"), VecShape(3, off)>>)
RECURSIVE ShapeOf(_, _)
ShapeOf(v, off) ==
  CASE v.t \in {"Vec", "Pt"} -> VecShape(Len(v.c), off)
    [] v.t = "Mat" -> MatShape(Len(v.c), off)
    [] v.t = "Basis" -> Obj(<<Tv("mat"), MatShape(Len(v.c), off)>>)
    [] v.t = "Quat" -> QuatShape(off)
    [] v.t \in {"Rad", "Deg"} -> Leaf(off + 1)                        \* angles are bare numbers
    [] v.t \in {"ERad", "EDeg"} -> VecShape(3, off)
    [] v.t = "Dec" -> Obj(<<Tv("disp"), ShapeOf(v.c[3], off + 1 + NComps(v.c[2])), Tv("rot"), ShapeOf(v.c[2], off + 1), Tv("scale"), Leaf(off + 1)>>)
    [] v.t \in {"Ortho", "Persp"} -> Obj(<<Tv("bottom"), Leaf(off + 3), Tv("far"), Leaf(off + 6), Tv("left"), Leaf(off + 1),
                                           Tv("near"), Leaf(off + 5), Tv("right"), Leaf(off + 2), Tv("top"), Leaf(off + 4)>>)
    [] v.t = "PFov" -> Obj(<<Tv("aspect"), Leaf(off + 2), Tv("far"), Leaf(off + 4), Tv("fovy"), Leaf(off + 1), Tv("near"), Leaf(off + 3)>>)
    [] v.t = "Planar" -> Obj(<<Tv("aspect"), Leaf(off + 2), Tv("far"), Leaf(off + 5), Tv("fovy"), Leaf(off + 1), Tv("height"), Leaf(off + 3), Tv("near"), Leaf(off + 4)>>)
    [] OTHER -> Undef
\* the Decomposed visitor: accepted iff exactly the three fields are present (in any order), nothing else
DecKeys == {"scale", "rot", "disp"}
DecAccepts(keys) == Len(keys) = 3 /\ {keys[i] : i \in 1..Len(keys)} = DecKeys
MalformedKinds == {"seq", "num", "str", "null", "bool", "bad_scale", "bad_rot", "bad_disp"}
SerdeRel(op, a, r) ==
  CASE op = "serde_shape" -> r.t = "Tup" /\ Len(r.c) = 2 /\ r.c[1] = ShapeOf(a[1], 0) /\ r.c[2] = Bv(TRUE)
    [] op = "serde_special" -> r = V("Tup", <<Bv(TRUE)>>)
    [] op = "serde_dec_keys" -> LET keys == [i \in 1..(Len(a) - 1) |-> Sc(a, i + 1)] IN
                                r.t = "Tup" /\ Len(r.c) = 2 /\ r.c[1] = Bv(DecAccepts(keys)) /\ (DecAccepts(keys) => r.c[2] = Bv(TRUE))
    \* anything that is not an object (a sequence, a number, a string, null, a boolean), or an object one of whose
    \* three fields holds a value of the wrong type, is rejected
    \* embedded with #[serde(flatten)] the value still round-trips: the announced field names are scale, rot, disp
    [] op = "serde_flatten" -> r = V("Tup", <<Bv(TRUE)>>)
    [] op = "serde_dec_malformed" -> Sc(a, 2) \in MalformedKinds /\ r = V("Tup", <<Bv(FALSE)>>)
    [] OTHER -> FALSE

\* ------------------------------------------------------------------------ pipeline C
\* Integer projections of floating-point results (computed by the recorder in f64 from the native values).
\* The model knows the exact rational inputs, so it knows which side of each threshold they are on.
IsIntTup(x, n) == x.t = "Tup" /\ Len(x.c) = n
ProjOps == {"slerp_proj", "nlerp_proj", "slerp_axis_proj", "look_proj", "arc_proj", "small_rot_proj", "norm_proj", "trig_big_proj", "tiny_inv_proj", "slab_proj", "scale_proj", "cross_near_proj", "mm_col_proj", "look_mag_proj", "deep_proj", "angle_near_proj", "lerp_end_proj", "dec_concat_proj", "fov_proj", "hom_proj", "near_sing_proj", "subnormal_det_proj", "centroid_big_proj", "tilt_rot_proj", "look2_mag_proj", "planar_far_proj", "lerp_far_proj", "pred_near_proj", "inv_vec_agree_proj", "inv_trig_proj", "forms_eq_proj", "look_near_proj", "unit_roundtrip", "normalize_native", "turn_div_exact", "full_turn_value", "euler_proj"}
\* degree of homogeneity of the operations when every vector / point / matrix / quaternion argument is multiplied by k
\* (scalar arguments are not scaled): linear operations 1, products and quadratic forms 2, determinants n, inverses -1,
\* directions and angles 0
HomDegrees == {<<"add", 1>>, <<"sub", 1>>, <<"neg", 1>>, <<"mul_s", 1>>, <<"div_s", 1>>, <<"s_mul", 1>>, <<"mul", 2>>, <<"dot", 2>>, <<"cross", 2>>,
               <<"perp_dot", 2>>, <<"mag2", 2>>, <<"magnitude", 1>>, <<"distance2", 2>>, <<"distance", 1>>, <<"normalize", 0>>, <<"lerp", 1>>,
               <<"transpose", 1>>, <<"transpose_self", 1>>, <<"trace", 1>>, <<"diagonal", 1>>, <<"det", 2>>, <<"det", 3>>, <<"det", 4>>, <<"invert", -1>>, <<"rot_invert", -1>>,
               <<"mul_ew", 2>>, <<"add_ew", 1>>, <<"sub_ew", 1>>, <<"sum", 1>>, <<"midpoint", 1>>, <<"centroid", 1>>, <<"to_vec", 1>>, <<"from_vec", 1>>,
               <<"conjugate", 1>>, <<"iter_sum", 1>>, <<"project_on", 1>>, <<"angle", 0>>, <<"is_zero", 0>>, <<"row", 1>>, <<"col", 1>>,
               <<"truncate", 1>>, <<"from_diagonal", 1>>, <<"swap_rows", 1>>, <<"swap_cols", 1>>, <<"to_homogeneous", 1>>,
               <<"from_homogeneous", 0>>, <<"nlerp", 0>>}
\* ... and when the scalar arguments are multiplied by k instead
HomScalarDegrees == {<<"atan2", 0>>, <<"mul_s", 1>>, <<"div_s", -1>>, <<"s_mul", 1>>, <<"normalize_to", 1>>, <<"mul_ew", 1>>, <<"div_ew", -1>>}
ProjRel(op, k, a, r) ==
  LET wide == k = "f32" IN
  CASE op \in {"slerp_proj", "nlerp_proj"} ->
         /\ IsIntTup(r, 4)
         /\ r.c[1].c[1] <= 8                                   \* unit: within 8 machine epsilons
         /\ r.c[3].c[1] <= 64                                  \* in the plane of a and b
         /\ r.c[4].c[1] = TRUE                                 \* on the shorter arc, between a and +-b
         /\ (op = "slerp_proj" =>                              \* constant angular speed            (C14)
               LET d == RAbs(Dot(a[1].c, a[2].c)) IN
               IF RLe(d, <<9995, 10000>>) THEN r.c[2].c[1] <= (IF wide THEN 5000 ELSE 50)          \* exactly, up to rounding
               ELSE r.c[2].c[1] <= (IF wide THEN 15000 ELSE 10000))                                \* within 1e-5 rad
    \* a basis quaternion and its half turn about a coordinate axis, built natively: a.b is a rounding residue whose sign the
    \* recorder knows exactly; the arc is a quarter of the 3-sphere's great circle, far from the hand-over, so speed is exact
    [] op = "slerp_axis_proj" -> /\ IsIntTup(r, 4) /\ r.c[1].c[1] <= 8 /\ r.c[4].c[1] = TRUE
                                 /\ r.c[2].c[1] <= (IF wide THEN 5000 ELSE 50)
    \* C09 in general position.  a = <<T inner op, T form, arguments..>>; r = <<orthonormality, det sign, dir off the z axis,
    \* dir z sign, up off the plane x = 0, up y sign, eye off the origin>> in machine epsilons / signs.  The handedness the
    \* model expects: Rotation::look_at and *_lh are left-handed (dir to +z), *_rh right-handed, deprecated Matrix4 aliases
    \* right-handed, deprecated Matrix3::look_at left-handed, the deprecated Transform::look_at either.
    [] op \in {"look_proj", "look_mag_proj", "look_near_proj"} ->
         LET inner == Sc(a, 1)  fm == Sc(a, 2)  off == IF op = "look_mag_proj" THEN 2 ELSE IF op = "look_near_proj" THEN 1 ELSE 0     \* exponents follow the names
             ty == IF a[3 + off].t = "T" THEN Sc(a, 3 + off) ELSE ""
             hands == CASE inner = "mat3_look_to" -> (IF fm = "rh" THEN {-1} ELSE {1})
                        [] inner \in {"mat4_look_to", "mat4_look_at"} -> (IF fm = "lh" THEN {1} ELSE {-1})
                        [] inner = "rot_look_at" -> {1}
                        [] inner = "tf_look_at" /\ ty = "Matrix4" -> (IF fm = "lh" THEN {1} ELSE {-1})
                        [] inner = "tf_look_at" -> (IF fm = "lh" THEN {1} ELSE IF fm = "rh" THEN {-1} ELSE {1, -1})
                        [] OTHER -> {}
             tol == IF wide THEN 4096 ELSE 1024 IN
         /\ IsIntTup(r, 7)
         /\ r.c[1].c[1] <= tol /\ r.c[2].c[1] = 1                 \* orthonormal, determinant +1
         /\ r.c[3].c[1] <= tol /\ r.c[4].c[1] \in hands            \* dir onto the z axis, with the documented sign
         /\ r.c[5].c[1] <= tol /\ r.c[6].c[1] = 1                 \* up into the half-plane x = 0, y >= 0
         /\ r.c[7].c[1] <= 4 * tol                                \* the eye goes to the origin (Matrix4, Decomposed)
    \* C15 close to parallel / antiparallel, but further than the tolerated 1e-7 rad (1e-4 rad for from_arc): the rotation
    \* still takes a onto b.  a = <<T kind, a, n, I table index, B antiparallel?, s1, s2>> with a, n exact orthogonal unit
    \* vectors (the model checks that premise) and, for from_arc, lengths within [1e-3, 1e3];
    \* r = <<|r(a) - b| in millionths of the angle, deviation from unit / orthonormal in eps, axis off the normal plane in 1e-9>>
    [] op = "arc_proj" ->
         /\ IsIntTup(r, 3)
         /\ IF Sc(a, 1) = "basis2"
            THEN Dot(a[2].c, a[2].c) = One
            ELSE /\ Dot(a[2].c, a[2].c) = One /\ Dot(a[3].c, a[3].c) = One /\ Dot(a[2].c, a[3].c) = Zero
                 /\ \A i \in {6, 7} : RLe(<<1, 1000>>, Sc(a, i)) /\ RLe(Sc(a, i), <<1000, 1>>)
         /\ r.c[1].c[1] <= 1000                                    \* r(a) = b to a thousandth of the small angle
         /\ r.c[2].c[1] <= 64 /\ r.c[3].c[1] <= 1000
    \* C05 / C06 at small angles (1e-3 .. 1e-8 rad): every representation, built from the angle, inverted, squared or
    \* converted to another representation first, still moves v by the angle about the axis.  a = <<T type, T route, n, v, I>>
    \* (3-D: n, v exact orthogonal unit vectors) or <<T type, T route, v, I>> (2-D); r = <<distance from the Rodrigues image,
    \* deviation of the image from unit length>> in machine epsilons (256 eps is a few millionths of the smallest angle)
    [] op = "small_rot_proj" ->
         LET ty == Sc(a, 1)  route == Sc(a, 2) IN
         /\ IsIntTup(r, 2)
         /\ IF ty \in {"Basis2", "Matrix2"}
            THEN Dot(a[3].c, a[3].c) = One /\ route \in {"direct", "invert", "compose"}
            ELSE /\ ty \in {"Quaternion", "Matrix3", "Basis3", "Matrix4"}
                 /\ Dot(a[3].c, a[3].c) = One /\ Dot(a[4].c, a[4].c) = One              \* unit axis, unit vector (any angle between them)
                 /\ route \in {"direct", "from_angle", "euler", "to_euler", "rotate_vector", "invert", "compose", "via_quat", "via_mat3", "via_basis3", "via_mat4"}
         /\ r.c[1].c[1] <= 256 /\ r.c[2].c[1] <= 64
    \* C11 close to unit length: normalising x (1 + g), x an exact unit vector, gives x back to rounding
    [] op = "norm_proj" -> /\ IsIntTup(r, 4) /\ Dot(a[1].c, a[1].c) = One /\ \A i \in 1..4 : r.c[i].c[1] <= 16
    \* C13 far from the first turn: the functions of Rad(x) are the real functions of x, whatever the number of turns
    [] op = "trig_big_proj" -> /\ IsIntTup(r, 10) /\ \A i \in 1..10 : r.c[i].c[1] <= 64
    \* C08 with a small scale: the model checks the premise (non-zero; for a Decomposed transform not negligibly small; unit
    \* rotation), the recorder reports <<inverse exists, vector round trip, point round trip>> in eps
    [] op = "tiny_inv_proj" ->
         /\ IsIntTup(r, 3) /\ Dot(a[3].c, a[3].c) = One
         \* (single precision logs a scale of a few millionths as 0: the premise on the scale is checked on the other scalars)
         /\ (k # "f32" => /\ Sc(a, 2) # Zero
                          /\ (Sc(a, 1) \in {"DecQ", "Dec3", "DecQ_vector"} => ~RAbsLe(Sc(a, 2), <<1, 1000000>>)))
         /\ r.c[1].c[1] = TRUE /\ r.c[2].c[1] <= 256 /\ r.c[3].c[1] <= 256
    \* C10 with far = near (1 + g): accepted (near # far), near plane to -1 and far plane to +1 (in units of eps / g)
    [] op = "slab_proj" -> /\ IsIntTup(r, 3) /\ RGt(Sc(a, 2), Zero) /\ r.c[1].c[1] = TRUE /\ r.c[2].c[1] <= 64 /\ r.c[3].c[1] <= 64
    \* Homogeneity: F(k x) = k^d F(x) on native values, k next to 1 and up to 170 orders of magnitude away (the recorder's
    \* table); a = <<T function, I table index, exact arguments..>>, r = <<deviation in eps (relative, per unit of
    \* condition number), verdicts agree>>.  The functions and their degrees: inverses (-1), determinants (n), transform_point
    \* of a scaled Matrix4 and from_homogeneous (0), quaternion inverse (-1), normalize / angle / project_on / from_arc (0),
    \* magnitude, cross, dot (1), is_zero of vectors (a predicate: unchanged)
    [] op = "scale_proj" ->
         /\ IsIntTup(r, 2)
         /\ Sc(a, 1) \in {"m4_invert", "m4_inverse_transform", "m3_invert", "m2_invert", "m4_det", "m3_det", "m4_transform_point", "from_homogeneous",
                          "q_invert", "q_normalize", "v3_normalize", "v2_normalize", "v4_normalize", "v3_magnitude", "v3_angle", "v2_angle",
                          "v3_project_on", "v3_cross", "v3_dot", "from_arc", "v3_is_zero", "v4_is_zero", "v2_is_zero", "v2_perp_dot",
                          "v3_cross_both", "v3_dot_both", "v2_perp_dot_both", "v3_angle_both", "v2_angle_both", "v3_project_on_both",
                          "m4_inv_resid", "m3_inv_resid", "m2_inv_resid", "m4_inv_graded", "m3_inv_graded", "m2_inv_graded"}
         /\ (Sc(a, 1) = "from_homogeneous" => a[3].c[4] # Zero)
         /\ r.c[1].c[1] <= 64 /\ r.c[2].c[1] = TRUE
    \* C08: concat(t1, t2)(p) = t1(t2(p)) for transforms with scales and displacements over many orders of magnitude
    [] op = "dec_concat_proj" -> /\ IsIntTup(r, 2) /\ Dot(a[2].c, a[2].c) = One /\ Dot(a[3].c, a[3].c) = One
                                 /\ r.c[1].c[1] <= 64 /\ r.c[2].c[1] = TRUE
    \* C10 at the ends of the field-of-view range (1e-6 .. pi - 1e-6): accepted, the top and right edges of the near rectangle go to +1
    [] op = "fov_proj" -> /\ IsIntTup(r, 3) /\ RGt(Sc(a, 3), Zero) /\ RGt(Sc(a, 4), Sc(a, 3))
                          /\ r.c[1].c[1] = TRUE /\ r.c[2].c[1] <= 64 /\ r.c[3].c[1] <= 64
    \* C02 next to singular: determinant g det(M) by multilinearity, an inverse exists and undoes the matrix
    [] op = "near_sing_proj" -> /\ IsIntTup(r, 3) /\ Det(a[1].c) # Zero /\ r.c[1].c[1] <= 64 /\ r.c[2].c[1] = TRUE /\ r.c[3].c[1] <= 64
    \* C12: the centroid of n equal points p is p (the sum of the position vectors, n p, divided by n), for a count n = 2^24 + 1 that
    \* single precision cannot represent; p has integer coordinates of at most 1000, so n p is exact in double precision
    [] op = "centroid_big_proj" ->
         /\ IsIntTup(r, 2)
         /\ \A i \in 1..Len(a[1].c) : a[1].c[i][2] = 1 /\ Abs(a[1].c[i][1]) <= 1000
         /\ r.c[1].c[1] = TRUE /\ r.c[2].c[1] = 16777217
    \* C02 with a subnormal determinant: M exact monomial (one non-zero entry per column, each +-1, +-2, +-1/2; det # 0), scaled
    \* natively by a power of two so that nothing rounds: determinant exact and non-zero, an inverse exists, and it is exact
    [] op = "subnormal_det_proj" ->
         LET M == a[1].c  n == Len(a[1].c)  Ent == {R(1), R(-1), R(2), R(-2), <<1, 2>>, <<-1, 2>>} IN
         /\ IsIntTup(r, 3) /\ n \in {2, 3}
         /\ \A c \in 1..n : /\ Cardinality({i \in 1..n : M[c][i] # Zero}) = 1
                             /\ \A i \in 1..n : M[c][i] = Zero \/ M[c][i] \in Ent
         /\ Det(M) # Zero
         /\ \A i \in 1..3 : r.c[i].c[1] = TRUE
    \* C06 with the axis a hair off a coordinate axis (n, m exact orthonormal): as small_rot_proj
    [] op = "tilt_rot_proj" -> /\ IsIntTup(r, 2) /\ Dot(a[3].c, a[3].c) = One /\ Dot(a[4].c, a[4].c) = One /\ Dot(a[3].c, a[4].c) = Zero
                               /\ Dot(a[5].c, a[5].c) = One /\ r.c[1].c[1] <= 256 /\ r.c[2].c[1] <= 64
    \* C09 in 2-D over magnitudes: orthonormal, first column along dir, second column on the side of up (the model knows the side)
    [] op = "look2_mag_proj" -> /\ IsIntTup(r, 3) /\ PerpDot(a[2].c, a[3].c) # Zero
                                /\ r.c[1].c[1] <= 64 /\ r.c[2].c[1] <= 64 /\ r.c[3].c[1] = 1
    \* C10, planar with a distant focal point: w vanishes there, the window's top edge goes to +1
    [] op = "planar_far_proj" -> /\ IsIntTup(r, 3) /\ RGt(Sc(a, 3), Zero) /\ RGt(Sc(a, 4), Sc(a, 3)) /\ r.c[1].c[1] = TRUE /\ r.c[2].c[1] <= 64 /\ r.c[3].c[1] <= 64
    \* C14, lerp far outside [0, 1] is still a + (b - a) t
    [] op = "lerp_far_proj" -> IsIntTup(r, 2) /\ r.c[1].c[1] <= 16 /\ r.c[2].c[1] = TRUE
    \* C18, predicates on nearly symmetric / diagonal matrices equal the conjunction of the scalar comparisons
    [] op = "pred_near_proj" -> IsIntTup(r, 1) /\ Sc(a, 1) \in {"is_symmetric", "is_diagonal"} /\ r.c[1].c[1] = TRUE
    \* C08: inverse_transform_vector agrees with inverse_transform (projective matrices included)
    [] op = "inv_vec_agree_proj" -> IsIntTup(r, 2) /\ r.c[1].c[1] = TRUE /\ r.c[2].c[1] <= 64
    \* C13: asin, acos, atan next to the ends of their domain
    [] op = "inv_trig_proj" -> IsIntTup(r, 3) /\ \A i \in 1..3 : r.c[i].c[1] <= 64
    \* C17: all spellings of an operator agree bit for bit on native operands (at least two spellings exist)
    [] op = "forms_eq_proj" -> IsIntTup(r, 2) /\ r.c[1].c[1] = TRUE /\ r.c[2].c[1] >= 2
    \* C10, far = near * 1e3 .. 1e12: accepted, near plane to -1 and far plane to +1 to a few eps
    [] op = "deep_proj" -> /\ IsIntTup(r, 3) /\ RGt(Sc(a, 2), Zero) /\ r.c[1].c[1] = TRUE /\ r.c[2].c[1] <= 64 /\ r.c[3].c[1] <= 64
    \* C11, angle of nearly (anti)parallel vectors in 2-D and 3-D: within ten millionths of the small angle, both argument orders
    [] op = "angle_near_proj" -> /\ IsIntTup(r, 2) /\ Dot(a[1].c, a[1].c) = One /\ r.c[1].c[1] <= 10 /\ r.c[2].c[1] <= 10
    \* C14, endpoints for nearly equal / nearly opposite unit quaternions: a at t = 0, +-b at t = 1, unit half way (eps)
    [] op = "lerp_end_proj" -> /\ IsIntTup(r, 3) /\ Dot(a[2].c, a[2].c) = One /\ Dot(a[3].c, a[3].c) = One
                               /\ r.c[1].c[1] <= 16 /\ r.c[2].c[1] <= 16 /\ r.c[3].c[1] <= 16
    \* column c of A*B = A*(column c of B) on awkward operands, every operand form                              (C01)
    [] op = "mm_col_proj" -> IsIntTup(r, 2) /\ r.c[1].c[1] <= 16 /\ r.c[2].c[1] = TRUE
    \* Homogeneity of an arbitrary operation of the machine: a = <<T op, T form, I table index, I degree, arguments..>>.
    \* The model states the degree: the table below is the specification's claim about each operation.
    [] op = "hom_proj" ->
         /\ IsIntTup(r, 2)
         /\ IF Sc(a, 2) \in {"vv@s", "rv@s", "as@s", "m@s"}
            THEN <<Sc(a, 1), Sc(a, 4)>> \in HomScalarDegrees          \* the scalar arguments are scaled instead
            ELSE <<Sc(a, 1), Sc(a, 4)>> \in HomDegrees
         /\ r.c[1].c[1] <= 64 /\ r.c[2].c[1] = TRUE
    \* cross(u, u + g w) = g cross(u, w): nearly parallel operands lose nothing beyond eps |u| |v|              (C03)
    [] op = "cross_near_proj" -> IsIntTup(r, 2) /\ r.c[1].c[1] <= 64 /\ r.c[2].c[1] = TRUE
    [] op = "unit_roundtrip" -> r.t = "I" /\ r.c[1] <= 4       \* relative error at most 4 machine epsilons   (C13)
    [] op = "normalize_native" -> /\ IsIntTup(r, 6) /\ r.c[1].c[1] = TRUE /\ r.c[2].c[1] = TRUE
                                  /\ r.c[3].c[1] <= (IF wide THEN 20000 ELSE 10) /\ r.c[4].c[1] <= (IF wide THEN 20000 ELSE 10)
                                  /\ r.c[5].c[1] <= 4 /\ r.c[6].c[1] <= 4      \* the remainder is exact: a - k * full_turn() is the result
    [] op = "turn_div_exact" -> r = Bv(TRUE)
    [] op = "full_turn_value" -> r.t = "I" /\ r.c[1] <= 1
    [] op = "euler_proj" ->                                     \* (C07)
         /\ IsIntTup(r, 5) /\ SurdQuatOK(a[1].c)
         /\ LET siny == SurdQMat3(a[1].c)[3][1] IN
            IF RAbsLe(siny, <<998, 1000>>) THEN r.c[4].c[1] <= 1 /\ r.c[5].c[1] = TRUE
            ELSE r.c[1].c[1] = TRUE /\ r.c[2].c[1] = TRUE /\ r.c[3].c[1] = RSgn(siny) /\ r.c[4].c[1] <= 130
    [] OTHER -> FALSE

MiscRelOps == ApproxOps \cup PredOps \cup ProjOps \cup {"cast", "serde_shape", "serde_special", "serde_dec_keys", "serde_dec_malformed", "serde_flatten"}
MiscRel(op, k, f, a, r) ==
  IF op \in ApproxOps \cup PredOps THEN ApproxRel(op, k, f, a, r)
  ELSE IF op \in ProjOps THEN ProjRel(op, k, a, r)
  ELSE IF op = "cast" THEN CastRel(a, r)
  ELSE SerdeRel(op, a, r)
=============================================================================
