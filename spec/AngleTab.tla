----------------------------- MODULE AngleTab -----------------------------
(* Symbolic angles with exact trigonometry.                                 *)
(* An angle is <<an, ad, k1, k2>> denoting (an/ad)*90deg + k1*t1 + k2*t2,   *)
(*   e^{i t1} = (3+4i)/5        (t1 = 53.13..deg)                           *)
(*   e^{i t2} = (39+760i)/761   (t2 = 87.06..deg, sin = 0.99869: steep)     *)
(* Angles add by adding coefficients, so "angles add under composition" is  *)
(* expressible; when the quarter-turn part is integral every sine and       *)
(* cosine is an exact rational (complex exponentiation).  Inverse trig is   *)
(* relational: the result must be the principal angle with the given ratio. *)
(* <<0,0,0,0,0>> is what the recorder logs for an unrecognisable angle.     *)
EXTENDS Rat

IsAng(x)   == Len(x) = 4 /\ x[2] > 0
AQ(x)      == <<x[1], x[2]>>                       \* quarter-turn part
AMk(q, k1, k2) == <<q[1], q[2], k1, k2>>
AZero      == <<0, 1, 0, 0>>
AQuarters(q) == AMk(q, 0, 0)                       \* q quarter turns
AAdd(x, y) == AMk(RAdd(AQ(x), AQ(y)), x[3] + y[3], x[4] + y[4])
ANeg(x)    == AMk(RNeg(AQ(x)), -x[3], -x[4])
ASub(x, y) == AAdd(x, ANeg(y))
ABad       == <<0, 0, 0, 0, 0>>
\* scaling by a rational keeps the angle symbolic only when the k-parts stay integral
AScale(x, q) == IF q[2] > 0 /\ (x[3] * q[1]) % q[2] = 0 /\ (x[4] * q[1]) % q[2] = 0
                THEN AMk(RMul(AQ(x), q), (x[3] * q[1]) \div q[2], (x[4] * q[1]) \div q[2])
                ELSE ABad
HasTrig(x) == IsAng(x) /\ x[2] = 1 /\ Abs(x[3]) <= 8 /\ Abs(x[4]) <= 2

CMul(a, b) == <<RSub(RMul(a[1], b[1]), RMul(a[2], b[2])), RAdd(RMul(a[1], b[2]), RMul(a[2], b[1]))>>
CConj(z)   == <<z[1], RNeg(z[2])>>
RECURSIVE CPow(_, _)
CPow(z, k) == IF k = 0 THEN <<One, Zero>> ELSE CMul(z, CPow(z, k - 1))
CPowZ(z, k) == IF k >= 0 THEN CPow(z, k) ELSE CConj(CPow(z, -k))
E1 == << <<3, 5>>, <<4, 5>> >>
E2 == << <<39, 761>>, <<760, 761>> >>
IPow(a) == CASE a % 4 = 0 -> <<One, Zero>> [] a % 4 = 1 -> <<Zero, One>>
             [] a % 4 = 2 -> <<R(-1), Zero>> [] a % 4 = 3 -> <<Zero, R(-1)>>
Cis(x) == CMul(IPow(x[1]), CMul(CPowZ(E1, x[3]), CPowZ(E2, x[4])))      \* <<cos, sin>>, needs HasTrig(x)
Cos(x) == Cis(x)[1]
Sin(x) == Cis(x)[2]
Tan(x) == RDiv(Sin(x), Cos(x))

\* rigorous rational enclosures of t1/90deg and t2/90deg
T1lo == <<59033, 100000>>   T1hi == <<59034, 100000>>
T2lo == <<96735, 100000>>   T2hi == <<96736, 100000>>
KLo(k, lo, hi) == IF k >= 0 THEN RMul(R(k), lo) ELSE RMul(R(k), hi)
KHi(k, lo, hi) == IF k >= 0 THEN RMul(R(k), hi) ELSE RMul(R(k), lo)
ALo(x) == RAdd(AQ(x), RAdd(KLo(x[3], T1lo, T1hi), KLo(x[4], T2lo, T2hi)))
AHi(x) == RAdd(AQ(x), RAdd(KHi(x[3], T1lo, T1hi), KHi(x[4], T2lo, T2hi)))
\* compare the real value (in quarter turns) with a rational: -1, 0, 1, or 2 = undecided by the enclosure
ACmp(x, q) == IF x[3] = 0 /\ x[4] = 0 THEN (IF RLt(AQ(x), q) THEN -1 ELSE IF AQ(x) = q THEN 0 ELSE 1)
              ELSE IF RLt(AHi(x), q) THEN -1 ELSE IF RLt(q, ALo(x)) THEN 1 ELSE 2
AGeQ(x, q) == ACmp(x, q) \in {0, 1, 2}       \* "not provably below"
ALeQ(x, q) == ACmp(x, q) \in {-1, 0, 2}      \* "not provably above"
AGtQ(x, q) == ACmp(x, q) \in {1, 2}
ALtQ(x, q) == ACmp(x, q) \in {-1, 2}
InRangeQ(x, lo, hi) == AGeQ(x, lo) /\ ALeQ(x, hi)

\* x and y differ by a whole number of turns
SameModTurn(x, y) == x[3] = y[3] /\ x[4] = y[4] /\ LET d == RSub(AQ(x), AQ(y)) IN d[2] = 1 /\ d[1] % 4 = 0

\* relational inverse trigonometry: g is the principal angle                     (C13)
AsinIs(g, v)     == HasTrig(g) /\ Sin(g) = v /\ RGe(Cos(g), Zero) /\ InRangeQ(g, R(-1), R(1))
AcosIs(g, v)     == HasTrig(g) /\ Cos(g) = v /\ RGe(Sin(g), Zero) /\ InRangeQ(g, R(0), R(2))
Atan2Is(g, y, x) == IF y = Zero /\ x = Zero THEN g = AZero
                    ELSE /\ HasTrig(g) /\ RMul(Sin(g), x) = RMul(Cos(g), y)
                         /\ RGt(RAdd(RMul(Cos(g), x), RMul(Sin(g), y)), Zero)
                         /\ InRangeQ(g, R(-2), R(2))
AtanIs(g, v)     == Atan2Is(g, v, One) /\ InRangeQ(g, R(-1), R(1))
=============================================================================
