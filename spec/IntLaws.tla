------------------------------ MODULE IntLaws ------------------------------
(* Unbounded algebraic laws behind properties C01-C05, C08, C12, C14, proved *)
(* with TLAPS (tlapm, SMT back end) for ALL integer entries.  TLC checks the *)
(* same laws on the specification's own operators (Lin, ApiLin: rationals as *)
(* normalised pairs, matrices as sequences of columns) over small finite     *)
(* ranges (mc/MC_C01..MC_C04); here the quantifiers are unbounded.           *)
(*                                                                           *)
(* Every theorem below is a polynomial identity with integer coefficients    *)
(* and no side condition.  A polynomial identity that holds for all integer  *)
(* values of its variables holds formally, hence in every commutative ring - *)
(* in particular over the rationals the specification computes with.  The    *)
(* operators are written with the same shape as their counterparts in        *)
(* Lin.tla / ApiLin.tla (matrices are tuples of COLUMNS, M[c][r]; the matrix *)
(* vector product is the combination of the columns; the determinant is the  *)
(* Leibniz expansion; quaternions are <<w, x, y, z>>); mc/MC_Bridge.tla lets *)
(* TLC confirm on a finite range that each operator here agrees with the     *)
(* specification's operator on integer-valued arguments.                     *)
(*                                                                           *)
(* tlapm's default SMT encoding is untyped and copes badly with identities   *)
(* of degree >= 4 buried in nested tuples; those nine laws are proved in     *)
(* scalar form in IntPoly.tla (typed encoding, seconds) and tied to the      *)
(* tuple operators of this module by mc/MC_Bridge.  Run: bin/prove.sh        *)
EXTENDS Integers

\* ------------------------------------------------------------------ dimension 2
V2 == Int \X Int
M2 == V2 \X V2
Add2(u, v) == <<u[1] + v[1], u[2] + v[2]>>
Scale2(u, k) == <<u[1] * k, u[2] * k>>
Dot2(u, v) == u[1] * v[1] + u[2] * v[2]
PerpDot(u, v) == u[1] * v[2] - u[2] * v[1]
MulMV2(A, v) == Add2(Scale2(A[1], v[1]), Scale2(A[2], v[2]))
MulMM2(A, B) == <<MulMV2(A, B[1]), MulMV2(A, B[2])>>
MAdd2(A, B) == <<Add2(A[1], B[1]), Add2(A[2], B[2])>>
Tr2(A) == << <<A[1][1], A[2][1]>>, <<A[1][2], A[2][2]>> >>
Det2(A) == A[1][1] * A[2][2] - A[2][1] * A[1][2]
Adj2(A) == << <<A[2][2], 0 - A[1][2]>>, <<0 - A[2][1], A[1][1]>> >>
Id2 == << <<1, 0>>, <<0, 1>> >>
MScale2(A, k) == <<Scale2(A[1], k), Scale2(A[2], k)>>

THEOREM MV2_Linear == \A A \in M2, u, v \in V2, k \in Int :
                        /\ MulMV2(A, Add2(u, v)) = Add2(MulMV2(A, u), MulMV2(A, v))
                        /\ MulMV2(A, Scale2(v, k)) = Scale2(MulMV2(A, v), k)
  BY DEF M2, V2, MulMV2, Add2, Scale2
THEOREM MM2_Assoc == \A A, B, C \in M2 : MulMM2(MulMM2(A, B), C) = MulMM2(A, MulMM2(B, C))
  BY DEF M2, V2, MulMM2, MulMV2, Add2, Scale2
THEOREM MM2_ActsAsComposition == \A A, B \in M2, v \in V2 : MulMV2(MulMM2(A, B), v) = MulMV2(A, MulMV2(B, v))
  BY DEF M2, V2, MulMM2, MulMV2, Add2, Scale2
THEOREM MM2_Distrib == \A A, B, C \in M2 : /\ MulMM2(A, MAdd2(B, C)) = MAdd2(MulMM2(A, B), MulMM2(A, C))
                                           /\ MulMM2(MAdd2(A, B), C) = MAdd2(MulMM2(A, C), MulMM2(B, C))
  BY DEF M2, V2, MulMM2, MulMV2, MAdd2, Add2, Scale2
THEOREM MM2_Identity == \A A \in M2 : MulMM2(A, Id2) = A /\ MulMM2(Id2, A) = A
  BY DEF M2, V2, MulMM2, MulMV2, Add2, Scale2, Id2
THEOREM Tr2_Product == \A A, B \in M2 : Tr2(MulMM2(A, B)) = MulMM2(Tr2(B), Tr2(A))
  BY DEF M2, V2, MulMM2, MulMV2, Add2, Scale2, Tr2
THEOREM Det2_Product == \A A, B \in M2 : Det2(MulMM2(A, B)) = Det2(A) * Det2(B)
  BY DEF M2, V2, MulMM2, MulMV2, Add2, Scale2, Det2
THEOREM Det2_Transpose == \A A \in M2 : Det2(Tr2(A)) = Det2(A)
  BY DEF M2, V2, Tr2, Det2
\* A * adj(A) = adj(A) * A = det(A) * I: dividing by a non-zero determinant gives the two-sided inverse   (C02)
THEOREM Adj2_Inverse == \A A \in M2 : /\ MulMM2(A, Adj2(A)) = MScale2(Id2, Det2(A))
                                      /\ MulMM2(Adj2(A), A) = MScale2(Id2, Det2(A))
  BY DEF M2, V2, MulMM2, MulMV2, Add2, Scale2, Adj2, MScale2, Id2, Det2
THEOREM Det2_SwapColumns == \A A \in M2 : Det2(<<A[2], A[1]>>) = 0 - Det2(A)
  BY DEF M2, V2, Det2

\* ------------------------------------------------------------------ dimension 3
V3 == Int \X Int \X Int
M3 == V3 \X V3 \X V3
Add3(u, v) == <<u[1] + v[1], u[2] + v[2], u[3] + v[3]>>
Sub3(u, v) == <<u[1] - v[1], u[2] - v[2], u[3] - v[3]>>
Scale3(u, k) == <<u[1] * k, u[2] * k, u[3] * k>>
Dot3(u, v) == u[1] * v[1] + u[2] * v[2] + u[3] * v[3]
Cross3(u, v) == <<u[2] * v[3] - u[3] * v[2], u[3] * v[1] - u[1] * v[3], u[1] * v[2] - u[2] * v[1]>>
MulMV3(A, v) == Add3(Add3(Scale3(A[1], v[1]), Scale3(A[2], v[2])), Scale3(A[3], v[3]))
MulMM3(A, B) == <<MulMV3(A, B[1]), MulMV3(A, B[2]), MulMV3(A, B[3])>>
MAdd3(A, B) == <<Add3(A[1], B[1]), Add3(A[2], B[2]), Add3(A[3], B[3])>>
MScale3(A, k) == <<Scale3(A[1], k), Scale3(A[2], k), Scale3(A[3], k)>>
Tr3(A) == << <<A[1][1], A[2][1], A[3][1]>>, <<A[1][2], A[2][2], A[3][2]>>, <<A[1][3], A[2][3], A[3][3]>> >>
Id3 == << <<1, 0, 0>>, <<0, 1, 0>>, <<0, 0, 1>> >>
\* Leibniz expansion over the six permutations
Det3(A) == A[1][1] * A[2][2] * A[3][3] + A[1][2] * A[2][3] * A[3][1] + A[1][3] * A[2][1] * A[3][2]
         - A[1][3] * A[2][2] * A[3][1] - A[1][2] * A[2][1] * A[3][3] - A[1][1] * A[2][3] * A[3][2]
\* adjugate: columns are cross products of the rows of A, i.e. of the columns of the transpose
Adj3(A) == LET r1 == <<A[1][1], A[2][1], A[3][1]>>  r2 == <<A[1][2], A[2][2], A[3][2]>>  r3 == <<A[1][3], A[2][3], A[3][3]>>
           IN Tr3(<<Cross3(A[2], A[3]), Cross3(A[3], A[1]), Cross3(A[1], A[2])>>)

THEOREM MV3_Linear == \A A \in M3, u, v \in V3, k \in Int :
                        /\ MulMV3(A, Add3(u, v)) = Add3(MulMV3(A, u), MulMV3(A, v))
                        /\ MulMV3(A, Scale3(v, k)) = Scale3(MulMV3(A, v), k)
  BY DEF M3, V3, MulMV3, Add3, Scale3
THEOREM MM3_ActsAsComposition == \A A, B \in M3, v \in V3 : MulMV3(MulMM3(A, B), v) = MulMV3(A, MulMV3(B, v))
  BY DEF M3, V3, MulMM3, MulMV3, Add3, Scale3
THEOREM MM3_Assoc == \A A, B, C \in M3 : MulMM3(MulMM3(A, B), C) = MulMM3(A, MulMM3(B, C))
  BY DEF M3, V3, MulMM3, MulMV3, Add3, Scale3
THEOREM MM3_Distrib == \A A, B, C \in M3 : /\ MulMM3(A, MAdd3(B, C)) = MAdd3(MulMM3(A, B), MulMM3(A, C))
                                           /\ MulMM3(MAdd3(A, B), C) = MAdd3(MulMM3(A, C), MulMM3(B, C))
  BY DEF M3, V3, MulMM3, MulMV3, MAdd3, Add3, Scale3
THEOREM MM3_Identity == \A A \in M3 : MulMM3(A, Id3) = A /\ MulMM3(Id3, A) = A
  BY DEF M3, V3, MulMM3, MulMV3, Add3, Scale3, Id3
THEOREM Tr3_Product == \A A, B \in M3 : Tr3(MulMM3(A, B)) = MulMM3(Tr3(B), Tr3(A))
  BY DEF M3, V3, MulMM3, MulMV3, Add3, Scale3, Tr3
THEOREM Det3_Transpose == \A A \in M3 : Det3(Tr3(A)) = Det3(A)
  BY DEF M3, V3, Tr3, Det3
\* Det3_Product: det(AB) = det(A) det(B) - proved in scalar form as IntPoly!DetProduct
THEOREM Adj3_Inverse == \A A \in M3 : /\ MulMM3(A, Adj3(A)) = MScale3(Id3, Det3(A))
                                      /\ MulMM3(Adj3(A), A) = MScale3(Id3, Det3(A))
  BY DEF M3, V3, MulMM3, MulMV3, Add3, Scale3, Adj3, Cross3, Tr3, MScale3, Id3, Det3
\* Det3_SwapColumns: exchanging two columns (or rows) negates the determinant - IntPoly!DetSwap
\* the determinant is the triple product of the columns
THEOREM Det3_TripleProduct == \A A \in M3 : Det3(A) = Dot3(A[1], Cross3(A[2], A[3]))
  BY DEF M3, V3, Det3, Dot3, Cross3

\* ------------------------------------------------------------------ vectors (C03)
THEOREM Dot3_Bilinear == \A u, v, w \in V3, k \in Int :
                           /\ Dot3(u, v) = Dot3(v, u)
                           /\ Dot3(Add3(u, v), w) = Dot3(u, w) + Dot3(v, w)
                           /\ Dot3(Scale3(u, k), v) = k * Dot3(u, v)
  BY DEF V3, Dot3, Add3, Scale3
THEOREM Cross3_Laws == \A u, v, w \in V3 :
                         /\ Cross3(u, v) = Scale3(Cross3(v, u), 0 - 1)                    \* anticommutative
                         /\ Dot3(u, Cross3(u, v)) = 0 /\ Dot3(v, Cross3(u, v)) = 0          \* orthogonal to both operands
                         /\ Cross3(Add3(u, v), w) = Add3(Cross3(u, w), Cross3(v, w))
  BY DEF V3, Dot3, Cross3, Add3, Scale3
\* Lagrange: |u x v|^2 = |u|^2 |v|^2 - (u.v)^2   (so |u x v| = |u||v| sin and u.v = |u||v| cos are consistent: C11)
THEOREM Lagrange == \A u, v \in V3 : Dot3(Cross3(u, v), Cross3(u, v)) = Dot3(u, u) * Dot3(v, v) - Dot3(u, v) * Dot3(u, v)
  BY DEF V3, Dot3, Cross3
\* in two dimensions: (u.v)^2 + perp_dot(u,v)^2 = |u|^2 |v|^2
THEOREM Lagrange2 == \A u, v \in V2 : Dot2(u, v) * Dot2(u, v) + PerpDot(u, v) * PerpDot(u, v) = Dot2(u, u) * Dot2(v, v)
  BY DEF V2, Dot2, PerpDot
THEOREM Jacobi == \A u, v, w \in V3 :
                    Add3(Add3(Cross3(u, Cross3(v, w)), Cross3(v, Cross3(w, u))), Cross3(w, Cross3(u, v))) = <<0, 0, 0>>
  BY DEF V3, Cross3, Add3
\* Cauchy-Schwarz as an identity: |u|^2 |v|^2 - (u.v)^2 is a sum of squares, hence the cosine of angle(u, v) lies in [-1, 1]
THEOREM CauchySchwarz == \A u, v \in V3 : Dot3(u, v) * Dot3(u, v) <= Dot3(u, u) * Dot3(v, v)
  <1> SUFFICES ASSUME NEW u \in V3, NEW v \in V3 PROVE Dot3(u, v) * Dot3(u, v) <= Dot3(u, u) * Dot3(v, v)
      OBVIOUS
  <1>1. Dot3(Cross3(u, v), Cross3(u, v)) = Dot3(u, u) * Dot3(v, v) - Dot3(u, v) * Dot3(u, v)
      BY Lagrange
  <1>2. \A w \in V3 : Dot3(w, w) >= 0
      <2> SUFFICES ASSUME NEW w \in V3 PROVE Dot3(w, w) >= 0
          OBVIOUS
      <2>1. w[1] \in Int /\ w[2] \in Int /\ w[3] \in Int
          BY DEF V3
      <2>2. \A x \in Int : x * x >= 0
          OBVIOUS
      <2> QED BY <2>1, <2>2 DEF Dot3
  <1>3. Cross3(u, v) \in V3
      BY DEF V3, Cross3
  <1>4. Dot3(u, u) \in Int /\ Dot3(v, v) \in Int /\ Dot3(u, v) \in Int
      BY DEF V3, Dot3
  <1> QED BY <1>1, <1>2, <1>3, <1>4

\* ------------------------------------------------------------------ points and vectors (C12), lerp (C14)
THEOREM Affine3 == \A p, q, r \in V3, v, w \in V3 :
                     /\ Sub3(Add3(p, v), p) = v
                     /\ Add3(p, Sub3(q, p)) = q
                     /\ Add3(Add3(p, v), w) = Add3(p, Add3(v, w))
                     /\ Add3(Sub3(q, p), Sub3(r, q)) = Sub3(r, p)
  BY DEF V3, Add3, Sub3
Lerp3(a, b, t) == Add3(a, Scale3(Sub3(b, a), t))
THEOREM Lerp3_Laws == \A a, b \in V3, s, t \in Int :
                        /\ Lerp3(a, b, 0) = a /\ Lerp3(a, b, 1) = b
                        /\ Sub3(Lerp3(a, b, s), Lerp3(a, b, t)) = Scale3(Sub3(b, a), s - t)
  BY DEF V3, Lerp3, Add3, Sub3, Scale3

\* ------------------------------------------------------------------ homogeneous matrices (C01): translation, scale
\* the 3x3 homogeneous matrix of a 2-D translation, acting on points (w = 1) and vectors (w = 0)
Translation2(d) == << <<1, 0, 0>>, <<0, 1, 0>>, <<d[1], d[2], 1>> >>
Scaling2(a, b) == << <<a, 0, 0>>, <<0, b, 0>>, <<0, 0, 1>> >>
THEOREM Homogeneous2 == \A d, e, p \in V2, a, b \in Int :
                          /\ MulMV3(Translation2(d), <<p[1], p[2], 1>>) = <<p[1] + d[1], p[2] + d[2], 1>>     \* points are displaced
                          /\ MulMV3(Translation2(d), <<p[1], p[2], 0>>) = <<p[1], p[2], 0>>                   \* vectors are not
                          /\ MulMM3(Translation2(d), Translation2(e)) = Translation2(Add2(d, e))
                          /\ MulMV3(Scaling2(a, b), <<p[1], p[2], 1>>) = <<p[1] * a, p[2] * b, 1>>
  BY DEF V2, MulMV3, MulMM3, Add3, Scale3, Translation2, Scaling2, Add2

\* ------------------------------------------------------------------ quaternions (C04, C05)
H == Int \X Int \X Int \X Int
QMul(a, b) == << a[1] * b[1] - a[2] * b[2] - a[3] * b[3] - a[4] * b[4],
                 a[1] * b[2] + a[2] * b[1] + a[3] * b[4] - a[4] * b[3],
                 a[1] * b[3] + a[3] * b[1] + a[4] * b[2] - a[2] * b[4],
                 a[1] * b[4] + a[4] * b[1] + a[2] * b[3] - a[3] * b[2] >>
QAdd(a, b) == <<a[1] + b[1], a[2] + b[2], a[3] + b[3], a[4] + b[4]>>
QConj(q) == <<q[1], 0 - q[2], 0 - q[3], 0 - q[4]>>
Norm2(q) == q[1] * q[1] + q[2] * q[2] + q[3] * q[3] + q[4] * q[4]
QVec(q) == <<q[2], q[3], q[4]>>
THEOREM QMul_Assoc == \A a, b, c \in H : QMul(QMul(a, b), c) = QMul(a, QMul(b, c))
  BY DEF H, QMul
THEOREM QMul_Distrib == \A a, b, c \in H : /\ QMul(a, QAdd(b, c)) = QAdd(QMul(a, b), QMul(a, c))
                                           /\ QMul(QAdd(a, b), c) = QAdd(QMul(a, c), QMul(b, c))
  BY DEF H, QMul, QAdd
\* the norm is multiplicative (Euler's four-square identity): products of unit quaternions are unit
\* Norm2_Product: |ab|^2 = |a|^2 |b|^2 - IntPoly!NormProduct
\* QConj_Laws: conj(ab) = conj(b) conj(a), a conj(a) = conj(a) a = |a|^2 - IntPoly!ConjLaws
\* the rotation matrix of a quaternion with `n` standing for |q|^2: for n = 1 this is, entry by entry, ApiLin!QMat3
QMat(q, n) == LET w == q[1] x == q[2] y == q[3] z == q[4] IN
              << << n - 2 * (y * y) - 2 * (z * z), 2 * (x * y) + 2 * (z * w), 2 * (x * z) - 2 * (y * w) >>,
                 << 2 * (x * y) - 2 * (z * w), n - 2 * (x * x) - 2 * (z * z), 2 * (y * z) + 2 * (x * w) >>,
                 << 2 * (x * z) + 2 * (y * w), 2 * (y * z) - 2 * (x * w), n - 2 * (x * x) - 2 * (y * y) >> >>
\* ApiLin!QRot with `n` for |q|^2:  n v + 2 qv x (qv x v + w v)
QRot(q, v, n) == Add3(Scale3(v, n), Scale3(Cross3(QVec(q), Add3(Cross3(QVec(q), v), Scale3(v, q[1]))), 2))
\* q (0, v) q* has zero scalar part and vector part QRot = QMat v: the three definitions of "rotate v by q" agree
\* Rotation_ThreeWays: q (0,v) conj(q) = (0, QMat(q) v) = (0, QRot(q, v)) - IntPoly!RotationThreeWays
\* quaternion -> matrix is a homomorphism (C05: composition is preserved by the conversion)
\* QMat_Homomorphism: QMat(pq) = QMat(p) QMat(q) - IntPoly!QMatHomomorphism
\* the matrix of a quaternion is |q|^2 times an orthogonal matrix of determinant +1: a proper rotation for unit q
\* QMat_Orthogonal: QMat(q)^T QMat(q) = |q|^4 I - IntPoly!QMatOrthogonal
\* QMat_Det: det QMat(q) = |q|^6 - IntPoly!QMatDet
\* q and -q give the same matrix (the double cover behind "q or -q" in C05 and C14)
THEOREM QMat_DoubleCover == \A q \in H : QMat(<<0 - q[1], 0 - q[2], 0 - q[3], 0 - q[4]>>, Norm2(q)) = QMat(q, Norm2(q))
  BY DEF H, QMat

\* ------------------------------------------------------------------ Decomposed transforms (C08)
\* x -> s R x + d with R any 3x3 matrix (orthogonality is not needed for the composition law)
Apply(s, R, d, p) == Add3(MulMV3(R, Scale3(p, s)), d)
\* Decomposed_Concat: Apply(s1,R1,d1, Apply(s2,R2,d2,p)) = Apply(s1 s2, R1 R2, s1 R1 d2 + d1, p) - IntPoly!DecomposedConcat
=============================================================================
