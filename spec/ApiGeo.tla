------------------------------ MODULE ApiGeo ------------------------------
(* Contracts of the geometric layer: rotations in four representations     *)
(* (C05, C06), Euler angles (C07), transforms (C08), view constructors     *)
(* (C09), projections (C10), metric operations (C11), angles (C13),        *)
(* interpolation (C14) and arcs (C15).                                     *)
(*                                                                         *)
(* Additional value tags:                                                  *)
(*   "Rad"/"Deg" <<an,ad,k1,k2>>  a symbolic angle (AngleTab); the symbol  *)
(*                                is unit independent, the tag is the unit *)
(*   "Basis" <<cols>>             Basis2 / Basis3                          *)
(*   "ERad"/"EDeg" <<x,y,z>>      Euler triple of symbolic angles          *)
(*   "Dec"  <<S, rot, Vec>>       Decomposed {scale, rot, disp}            *)
(*   "Persp" <<l,r,b,t,n,f>>      Perspective                              *)
(* Contracts are relational wherever the property is (q or -q, any         *)
(* perpendicular axis, None-or-inverse for negligible scales).             *)
EXTENDS ApiLin, AngleTab, SqrtRat

IsAngTag(t) == t \in {"Rad", "Deg"}
Ang(v) == v.c                                 \* the symbolic angle of an angle value
AllRatSeq(s) == \A i \in 1..Len(s) : IsRat(s[i])
AllRatMat(M) == \A c \in 1..Len(M) : AllRatSeq(M[c])
IsSquareMat(M, n) == Len(M) = n /\ \A c \in 1..n : Len(M[c]) = n

\* ---------------------------------------------------------------- rotations
\* orthonormal with determinant +1.  For an orthogonal matrix det = +1 iff the last column is the cross
\* product of the first two (3-D) / the first column turned a quarter turn (2-D): degree 2 instead of 3,
\* which keeps TLC's 32-bit integers from overflowing on denominators like 3843.
IsRotation(M) == /\ MulMM(Transpose(M), M) = Id(Len(M))
                 /\ IF Len(M) = 3 THEN Cross(M[1], M[2]) = M[3]
                    ELSE IF Len(M) = 2 THEN M[2] = <<RNeg(M[1][2]), M[1][1]>>
                    ELSE Det(M) = One
IsUnitQ(q) == Len(q) = 4 /\ AllRatSeq(q) /\ Mag2(q) = One
\* the rational rotation matrix of a quaternion whose components may be square roots
SurdQuatOK(q) == /\ Len(q) = 4 /\ \A i \in 1..4 : IsScal(q[i])
                 /\ \A i, j \in 1..4 : SProdOK(q[i], q[j])
                 /\ RAdd(RAdd(SSq(q[1]), SSq(q[2])), RAdd(SSq(q[3]), SSq(q[4]))) = One
SurdQMat3(q) == LET p(i, j) == RMul(Two, SProd(q[i], q[j])) IN          \* w=1, x=2, y=3, z=4
  << << RSub(RSub(One, p(3, 3)), p(4, 4)), RAdd(p(2, 3), p(4, 1)), RSub(p(2, 4), p(3, 1)) >>,
     << RSub(p(2, 3), p(4, 1)), RSub(RSub(One, p(2, 2)), p(4, 4)), RAdd(p(3, 4), p(2, 1)) >>,
     << RAdd(p(2, 4), p(3, 1)), RSub(p(3, 4), p(2, 1)), RSub(RSub(One, p(2, 2)), p(3, 3)) >> >>
\* Rodrigues: v cos t + (a x v) sin t + a (a.v)(1 - cos t), column j = image of e_j      (C06)
RodV(a, g, v) == VAdd(VAdd(VScale(v, Cos(g)), VScale(Cross(a, v), Sin(g))), VScale(a, RMul(Dot(a, v), RSub(One, Cos(g)))))
Rod(a, g) == [j \in 1..3 |-> RodV(a, g, VUnit(3, j))]
RotX(g) == Rod(VUnit(3, 1), g)
RotY(g) == Rod(VUnit(3, 2), g)
RotZ(g) == Rod(VUnit(3, 3), g)
Rot2(g) == << <<Cos(g), Sin(g)>>, <<RNeg(Sin(g)), Cos(g)>> >>
\* intrinsic X-Y-Z                                                                        (C07)
EulerMat(e) == MulMM(MulMM(RotX(e[1]), RotY(e[2])), RotZ(e[3]))
RotMatOf(v) == IF v.t = "Quat" THEN QMat3(v.c) ELSE v.c
RotApply(rot, v) == IF rot.t = "Quat" THEN QRot(rot.c, v) ELSE MulMV(rot.c, v)
\* r represents the rotation matrix RR in the representation named `name`
RepresentsRot(name, r, RR) ==
  CASE name \in {"Matrix3", "Matrix2"} -> r.t = "Mat" /\ r.c = RR
    [] name = "Matrix4" -> r.t = "Mat" /\ r.c = Embed(RR, 4)
    [] name \in {"Basis3", "Basis2"} -> r.t = "Basis" /\ r.c = RR
    [] name = "Quaternion" -> r.t = "Quat" /\ SurdQuatOK(r.c) /\ SurdQMat3(r.c) = RR      \* q or -q
    [] OTHER -> FALSE
AxisOf(op) == CASE op = "from_angle_x" -> VUnit(3, 1) [] op = "from_angle_y" -> VUnit(3, 2) [] op = "from_angle_z" -> VUnit(3, 3)

\* ---------------------------------------------------------------- Euler extraction  (C07)
RAbsLe(x, b) == RLe(RAbs(x), b)
MatClose(A, B, eps) == \A c \in 1..Len(A) : \A r \in 1..Len(A) : RAbsLe(RSub(A[c][r], B[c][r]), eps)
EulerFromQuatRel(q, r) ==
  /\ r.t = "ERad" /\ Len(r.c) = 3
  /\ SurdQuatOK(q)
  /\ LET M == SurdQMat3(q)  siny == M[3][1]  e == r.c IN
     IF RAbsLe(siny, <<998, 1000>>)
     THEN /\ \A i \in 1..3 : HasTrig(e[i])
          /\ InRangeQ(e[1], R(-2), R(2)) /\ InRangeQ(e[2], R(-1), R(1)) /\ InRangeQ(e[3], R(-2), R(2))
          /\ EulerMat(e) = M
     ELSE /\ e[1] = AZero /\ e[2] = AQuarters(R(RSgn(siny)))
          /\ HasTrig(e[3]) /\ MatClose(EulerMat(e), M, <<13, 100>>)

\* ---------------------------------------------------------------- transforms          (C08)
DecScale(d) == d.c[1].c[1]
DecRot(d)   == d.c[2]
DecDisp(d)  == d.c[3].c
DecV(s, rot, disp) == V("Dec", <<Sv(s), rot, V("Vec", disp)>>)
IsDec(d) == d.t = "Dec" /\ Len(d.c) = 3 /\ d.c[1].t = "S" /\ d.c[2].t \in {"Quat", "Basis"} /\ d.c[3].t = "Vec"
DecRotOK(rot) == IF rot.t = "Quat" THEN IsUnitQ(rot.c) ELSE AllRatMat(rot.c)
\* action of a transform on a point / a vector
TfPoint(x, p) ==
  IF x.t = "Dec" THEN VAdd(RotApply(DecRot(x), VScale(p, DecScale(x))), DecDisp(x))
  ELSE LET n == Len(x.c) IN
       IF Len(p) = n THEN MulMV(x.c, p)                                   \* Matrix3 acting on Point3
       ELSE LET h == MulMV(x.c, Append(p, One)) IN
            IF n = 3 THEN <<h[1], h[2]>>                                  \* Matrix3 as a 2-D transform: no division
            ELSE [i \in 1..3 |-> RMul(h[i], RDiv(One, h[4]))]             \* Matrix4: homogeneous division
TfVector(x, v) ==
  IF x.t = "Dec" THEN RotApply(DecRot(x), VScale(v, DecScale(x)))
  ELSE LET n == Len(x.c) IN
       IF Len(v) = n THEN MulMV(x.c, v)
       ELSE SubSeq(MulMV(x.c, Append(v, Zero)), 1, n - 1)
Negligible(s) == RAbsLe(s, <<1, 1000000>>)
DecConcatRel(x, y, r) ==
  /\ IsDec(r) /\ DecRot(r).t = DecRot(x).t /\ DecRotOK(DecRot(r))
  /\ DecScale(r) = RMul(DecScale(x), DecScale(y))
  /\ RotMatOf(DecRot(r)) = MulMM(RotMatOf(DecRot(x)), RotMatOf(DecRot(y)))
  /\ DecDisp(r) = VAdd(RotApply(DecRot(x), VScale(DecDisp(y), DecScale(x))), DecDisp(x))
DecInverseRel(x, r) ==
  LET s == DecScale(x) IN
  IF s = Zero THEN r.t = "None"
  ELSE \/ r.t = "None" /\ Negligible(s)
       \/ /\ r.t = "Some" /\ IsDec(r.c[1])
          /\ LET d == r.c[1] IN
             /\ DecRot(d).t = DecRot(x).t /\ DecRotOK(DecRot(d))
             /\ DecScale(d) = RDiv(One, s)
             /\ RotMatOf(DecRot(d)) = Transpose(RotMatOf(DecRot(x)))
             /\ DecDisp(d) = VScale(MulMV(Transpose(RotMatOf(DecRot(x))), DecDisp(x)), RNeg(RDiv(One, s)))
InvVectorRel(x, v, r) ==
  IF x.t = "Dec"
  THEN LET s == DecScale(x) IN
       IF s = Zero THEN r.t = "None"
       ELSE \/ r.t = "None" /\ Negligible(s)
            \/ r.t = "Some" /\ r.c[1].t = "Vec" /\ AllRatSeq(r.c[1].c) /\ TfVector(x, r.c[1].c) = v
  ELSE IF Det(x.c) = Zero THEN r.t = "None"
       ELSE r.t = "Some" /\ r.c[1].t = "Vec" /\ AllRatSeq(r.c[1].c) /\ Len(r.c[1].c) = Len(v) /\ TfVector(x, r.c[1].c) = v
MatFromDec(d) ==
  LET n == Len(DecDisp(d))  RM == RotMatOf(DecRot(d))  s == DecScale(d) IN
  [c \in 1..(n + 1) |-> IF c <= n THEN Append(VScale(RM[c], s), Zero) ELSE Append(DecDisp(d), One)]
TfOne(name) == CASE name \in {"Matrix3_2", "Matrix3_3"} -> V("Mat", Id(3))
                 [] name = "Matrix4" -> V("Mat", Id(4))
                 [] name = "DecQ" -> DecV(One, V("Quat", QOne), VZero(3))
                 [] name = "Dec3" -> DecV(One, V("Basis", Id(3)), VZero(3))
                 [] name = "Dec2" -> DecV(One, V("Basis", Id(2)), VZero(2))
                 [] OTHER -> Undef

\* ---------------------------------------------------------------- view constructors  (C09)
\* M is the rigid rotation that looks along `dir` with `up` in the half-plane x = 0, y >= 0;
\* hand = "rh": dir goes to -z, "lh": to +z.  The conditions are linear in M, no square root.
LookRel(M, dir, up, hand) ==
  /\ IsSquareMat(M, 3) /\ AllRatMat(M) /\ IsRotation(M)
  /\ LET d == MulMV(M, dir)  u == MulMV(M, up) IN
     /\ d[1] = Zero /\ d[2] = Zero
     /\ IF hand = "lh" THEN RGt(d[3], Zero) ELSE RLt(d[3], Zero)
     /\ u[1] = Zero /\ RGe(u[2], Zero)
Block3(M) == [c \in 1..3 |-> SubSeq(M[c], 1, 3)]
Look4Rel(M, eye, dir, up, hand) ==
  /\ IsSquareMat(M, 4) /\ AllRatMat(M)
  /\ LookRel(Block3(M), dir, up, hand)
  /\ \A c \in 1..3 : M[c][4] = Zero
  /\ M[4][4] = One
  /\ VAdd(MulMV(Block3(M), eye), SubSeq(M[4], 1, 3)) = VZero(3)        \* the eye goes to the origin
\* 2-D: orthonormal columns, first = dir/|dir|, second on the side of up (flip given explicitly for *_stable)
Look2Cols(M, dir) == /\ IsSquareMat(M, 2) /\ AllRatMat(M)
                     /\ Mag2(M[1]) = One /\ PerpDot(M[1], dir) = Zero /\ RGt(Dot(M[1], dir), Zero)
                     /\ Mag2(M[2]) = One /\ Dot(M[1], M[2]) = Zero
Look2Rel(M, dir, up) == Look2Cols(M, dir) /\ RGe(Dot(M[2], up), Zero)
Look2Stable(M, dir, flip) == Look2Cols(M, dir) /\ M[2] = (IF flip THEN <<M[1][2], RNeg(M[1][1])>> ELSE <<RNeg(M[1][2]), M[1][1]>>)
HandsOf(f) == CASE f = "lh" -> {"lh"} [] f = "rh" -> {"rh"} [] OTHER -> {"lh", "rh"}
TfLookRel(name, f, eye, center, up, r) ==
  LET dir == VSub(center, eye) IN
  CASE name = "Matrix4" -> r.t = "Mat" /\ Look4Rel(r.c, eye, dir, up, IF f = "lh" THEN "lh" ELSE "rh")
    [] name = "Matrix3_3" -> r.t = "Mat" /\ \E h \in HandsOf(f) : LookRel(r.c, dir, up, h)
    [] name = "Matrix3_2" -> r.t = "Mat" /\ IsSquareMat(r.c, 3) /\
          \E h \in HandsOf(f) : LET d2 == IF h = "rh" THEN VNeg(dir) ELSE dir
                                    B == << SubSeq(r.c[1], 1, 2), SubSeq(r.c[2], 1, 2) >> IN
                                Look2Rel(B, d2, up) /\ r.c = Embed(B, 3)
    [] name \in {"DecQ", "Dec3", "Dec2"} ->
          /\ IsDec(r) /\ DecScale(r) = One /\ DecRotOK(DecRot(r))
          /\ DecRot(r).t = (IF name = "DecQ" THEN "Quat" ELSE "Basis")
          /\ \E h \in HandsOf(f) :
               /\ IF name = "Dec2" THEN Look2Rel(RotMatOf(DecRot(r)), IF h = "rh" THEN VNeg(dir) ELSE dir, up)
                  ELSE LookRel(RotMatOf(DecRot(r)), dir, up, h)
               /\ TfPoint(r, eye) = VZero(Len(eye))
    [] OTHER -> FALSE

\* ---------------------------------------------------------------- projections        (C10)
Clip(M, p) == MulMV(M, Append(p, One))
\* the point p goes to normalised device coordinates ndc (after division by w); w must not vanish
MapsTo(M, p, ndc) == LET h == Clip(M, p) IN h[4] # Zero /\ \A i \in 1..3 : h[i] = RMul(ndc[i], h[4])
Sg(b) == IF b THEN One ELSE R(-1)
OrthoRel(M, l, r, b, t, n, f) ==
  /\ IsSquareMat(M, 4) /\ AllRatMat(M)
  /\ Row(M, 4) = <<Zero, Zero, Zero, One>>                               \* affine
  /\ \A xr, yt, zf \in BOOLEAN :
       MapsTo(M, << IF xr THEN r ELSE l, IF yt THEN t ELSE b, RNeg(IF zf THEN f ELSE n) >>, <<Sg(xr), Sg(yt), Sg(zf)>>)
FrustumGeom(M, l, r, b, t, n, f) ==
  /\ IsSquareMat(M, 4) /\ AllRatMat(M)
  /\ Row(M, 4) = <<Zero, Zero, R(-1), Zero>>                             \* w = -z
  /\ \A xr, yt \in BOOLEAN :
       /\ MapsTo(M, << IF xr THEN r ELSE l, IF yt THEN t ELSE b, RNeg(n) >>, <<Sg(xr), Sg(yt), R(-1)>>)
       /\ LET k == RDiv(f, n) IN
          MapsTo(M, << RMul(k, IF xr THEN r ELSE l), RMul(k, IF yt THEN t ELSE b), RNeg(f) >>, <<Sg(xr), Sg(yt), One>>)
FrustumRel(l, r, b, t, n, f, res) ==
  IF RGt(l, r) \/ RGt(b, t) \/ RGt(n, f) THEN res.t = "Panic"
  ELSE res.t = "Mat" /\ FrustumGeom(res.c, l, r, b, t, n, f)
HalfAngle(g) == AScale(g, Half)
PerspValid(g, asp, n, f) == AGtQ(g, R(0)) /\ ALtQ(g, R(2)) /\ asp # Zero /\ RGt(n, Zero) /\ RGt(f, Zero) /\ n # f
PerspInvalid(g, asp, n, f) == ~(ACmp(g, R(0)) \in {1} /\ ACmp(g, R(2)) \in {-1}) \/ asp = Zero \/ RLe(n, Zero) \/ RLe(f, Zero) \/ n = f
PerspectiveRel(g, asp, n, f, res) ==
  IF PerspInvalid(g, asp, n, f) THEN res.t = "Panic"
  ELSE /\ res.t = "Mat" /\ HasTrig(HalfAngle(g))
       /\ LET ymax == RMul(n, Tan(HalfAngle(g)))  xmax == RMul(asp, ymax) IN
          FrustumGeom(res.c, RNeg(xmax), xmax, RNeg(ymax), ymax, n, f)
ToPerspective(g, asp, n, f) ==
  LET ymax == RMul(n, Tan(HalfAngle(g)))  xmax == RMul(asp, ymax) IN V("Persp", <<RNeg(xmax), xmax, RNeg(ymax), ymax, n, f>>)
\* planar: the z = 0 window of height h, width asp*h goes to [-1,1]^2, z = -n to -1, z = -f to +1,
\* centre of projection at distance (h/2) cot(fovy/2) behind the origin (fovy = 0: at infinity)
PlanarInvalid(g, asp, h, n, f) ==
  \/ ~(ACmp(g, R(-2)) = 1 /\ ACmp(g, R(2)) = -1) \/ RLt(h, Zero) \/ asp = Zero \/ n = f
  \/ /\ HasTrig(HalfAngle(g)) /\ Tan(HalfAngle(g)) # Zero /\ h # Zero
     /\ LET focal == RNeg(RDiv(h, RMul(Two, Tan(HalfAngle(g))))) IN ~(RLt(focal, RMin(f, n)) \/ RGt(focal, RMax(f, n)))
PlanarGeom(M, g, asp, h, n, f) ==
  /\ IsSquareMat(M, 4) /\ AllRatMat(M)
  /\ LET hw == RMul(asp, RMul(h, Half))  hh == RMul(h, Half)  tn == Tan(HalfAngle(g)) IN
     /\ \A xr, yt \in BOOLEAN :
          LET cx == IF xr THEN hw ELSE RNeg(hw)  cy == IF yt THEN hh ELSE RNeg(hh) IN
          /\ LET c0 == Clip(M, <<cx, cy, Zero>>) IN c0[4] # Zero /\ c0[1] = RMul(Sg(xr), c0[4]) /\ c0[2] = RMul(Sg(yt), c0[4])
          /\ LET cn == Clip(M, <<cx, cy, RNeg(n)>>) IN cn[4] # Zero /\ cn[3] = RNeg(cn[4])
          /\ LET cf == Clip(M, <<cx, cy, RNeg(f)>>) IN cf[4] # Zero /\ cf[3] = cf[4]
          \* projective about the focal point: the point half way from the window corner to the centre of
          \* projection has the same x, y in normalised device coordinates
          /\ IF tn = Zero
             THEN LET c2 == Clip(M, <<cx, cy, R(-1)>>) IN c2[1] = RMul(Sg(xr), c2[4]) /\ c2[2] = RMul(Sg(yt), c2[4])
             ELSE LET zf == RDiv(hh, tn)
                      c2 == Clip(M, <<RMul(cx, Half), RMul(cy, Half), RMul(zf, Half)>>) IN
                  c2[1] = RMul(Sg(xr), c2[4]) /\ c2[2] = RMul(Sg(yt), c2[4])
     /\ IF tn = Zero THEN Clip(M, <<Zero, Zero, Zero>>)[4] = Clip(M, <<Zero, Zero, One>>)[4]      \* w constant: orthographic limit
        ELSE Clip(M, <<Zero, Zero, RDiv(hh, tn)>>)[4] = Zero                                     \* w = 0 at the focal point
PlanarRel(g, asp, h, n, f, res) ==
  IF PlanarInvalid(g, asp, h, n, f) THEN res.t = "Panic"
  ELSE res.t = "Mat" /\ HasTrig(HalfAngle(g)) /\ PlanarGeom(res.c, g, asp, h, n, f)

\* ---------------------------------------------------------------- metric             (C11)
NormalizedRel(x, m, r) ==          \* r = x * (m / |x|), component-wise in sqrt form
  /\ r.t = x.t /\ Len(r.c) = Len(x.c)
  /\ LET q == Mag2(x.c) IN
     \A i \in 1..Len(x.c) : IsScal(r.c[i]) /\ SIsRoot(r.c[i], RSgn(x.c[i]) * RSgn(m), RDiv(RMul(RSq(m), RSq(x.c[i])), q))
AngleRel(u, v, r) ==
  /\ r.t = "Rad"
  /\ IF Len(u) = 2 THEN Atan2Is(r.c, PerpDot(u, v), Dot(u, v))          \* signed, counter-clockwise from u to v
     ELSE /\ HasTrig(r.c) /\ InRangeQ(r.c, R(0), R(2)) /\ RGe(Sin(r.c), Zero)
          /\ RSgn(Cos(r.c)) = RSgn(Dot(u, v))
          /\ RMul(RSq(Cos(r.c)), RMul(Mag2(u), Mag2(v))) = RSq(Dot(u, v))

\* ---------------------------------------------------------------- angles             (C13)
AngV(t, g) == V(t, g)
BisectRel(x, y, r) ==
  \* r - x and y - r are congruent modulo a turn to one and the same delta with |delta| <= a quarter turn
  /\ IsAng(r)
  /\ LET da == ASub(r, x)  db == ASub(y, r) IN
     /\ SameModTurn(da, db)
     /\ LET q == AQ(da)
            m == (q[1] + 2 * q[2]) \div (4 * q[2])                   \* floor((q + 2) / 4): bring q into [-2, 2)
            delta == AMk(RSub(q, R(4 * m)), da[3], da[4]) IN
        InRangeQ(delta, R(-1), R(1)) \/ (delta[3] = 0 /\ delta[4] = 0 /\ AQ(delta) = R(-2))
AngFn(op, a) ==
  LET tg == Tags(a) IN
  CASE op = "add" /\ tg \in {<<"Rad","Rad">>, <<"Deg","Deg">>} -> V(tg[1], AAdd(a[1].c, a[2].c))
    [] op = "sub" /\ tg \in {<<"Rad","Rad">>, <<"Deg","Deg">>} -> V(tg[1], ASub(a[1].c, a[2].c))
    [] op = "neg" /\ tg \in {<<"Rad">>, <<"Deg">>} -> V(tg[1], ANeg(a[1].c))
    [] op = "mul_s" /\ tg \in {<<"Rad","S">>, <<"Deg","S">>} -> V(tg[1], AScale(a[1].c, Sc(a, 2)))
    [] op = "div_s" /\ tg \in {<<"Rad","S">>, <<"Deg","S">>} -> V(tg[1], AScale(a[1].c, RInv(Sc(a, 2))))
    [] op = "rem" /\ tg \in {<<"Rad","Rad">>, <<"Deg","Deg">>} /\ a[1].c[3] = 0 /\ a[1].c[4] = 0 /\ a[2].c[3] = 0 /\ a[2].c[4] = 0 ->
         V(tg[1], AQuarters(RRem(AQ(a[1].c), AQ(a[2].c))))
    [] op = "div_aa" /\ tg \in {<<"Rad","Rad">>, <<"Deg","Deg">>} /\ a[1].c[3] = 0 /\ a[1].c[4] = 0 /\ a[2].c[3] = 0 /\ a[2].c[4] = 0 ->
         Sv(RDiv(AQ(a[1].c), AQ(a[2].c)))
    [] op = "to_deg" /\ tg = <<"Rad">> -> V("Deg", a[1].c)
    [] op = "to_rad" /\ tg = <<"Deg">> -> V("Rad", a[1].c)
    [] op = "full_turn" /\ tg = <<"T">> -> V(Sc(a, 1), AQuarters(R(4)))
    [] op = "ang_zero" /\ tg = <<"T">> -> V(Sc(a, 1), AZero)
    [] op = "sin" /\ IsAngTag(tg[1]) /\ HasTrig(a[1].c) -> Sv(Sin(a[1].c))
    [] op = "cos" /\ IsAngTag(tg[1]) /\ HasTrig(a[1].c) -> Sv(Cos(a[1].c))
    [] op = "tan" /\ IsAngTag(tg[1]) /\ HasTrig(a[1].c) -> Sv(Tan(a[1].c))
    [] op = "csc" /\ IsAngTag(tg[1]) /\ HasTrig(a[1].c) -> Sv(RDiv(One, Sin(a[1].c)))
    [] op = "sec" /\ IsAngTag(tg[1]) /\ HasTrig(a[1].c) -> Sv(RDiv(One, Cos(a[1].c)))
    [] op = "cot" /\ IsAngTag(tg[1]) /\ HasTrig(a[1].c) -> Sv(RDiv(One, Tan(a[1].c)))
    [] op = "sin_cos" /\ IsAngTag(tg[1]) /\ HasTrig(a[1].c) -> V("Tup", <<Sv(Sin(a[1].c)), Sv(Cos(a[1].c))>>)
    [] op = "iter_sum" /\ Len(a) >= 1 /\ tg[1] = "T" /\ Sc(a, 1) \in {"Rad", "Deg"} -> V(Sc(a, 1), FoldVals(a, 2, AZero, AAdd))
    [] op = "euler_new" /\ tg \in {<<"Rad","Rad","Rad">>, <<"Deg","Deg","Deg">>} ->
         V(IF tg[1] = "Rad" THEN "ERad" ELSE "EDeg", <<a[1].c, a[2].c, a[3].c>>)
    [] OTHER -> Undef

\* ---------------------------------------------------------------- interpolation      (C14)
\* the representative of b on the side of a; when a.b = 0 exactly both are at the same distance and either may be taken
\* (in floating point the sign of a rounded zero decides)
NearSides(a, b) == IF Dot(a, b) = Zero THEN {b, VNeg(b)} ELSE IF RLt(Dot(a, b), Zero) THEN {VNeg(b)} ELSE {b}
NlerpRel(a, b, t, r) ==
  \E b2 \in NearSides(a, b) :
    LET w == VAdd(VScale(a, RSub(One, t)), VScale(b2, t)) IN NormalizedRel(V("Quat", w), One, r)
SlerpAngles == {<<an, 1, k1, 0>> : an \in -4..4, k1 \in -8..8}
SlerpRel(a, b, t, r) ==
  LET d == RAbs(Dot(a, b)) IN
  IF RGt(d, <<9995, 10000>>) THEN NlerpRel(a, b, t, r)              \* hand-over; the 1e-5 rad clause is checked by projection
  ELSE \E b2 \in NearSides(a, b) :
       IF t = Zero THEN r.t = "Quat" /\ r.c = a                      \* exact endpoints, whatever the arc
       ELSE IF t = One THEN r.t = "Quat" /\ r.c = b2
       ELSE \E g \in SlerpAngles :
         /\ AcosIs(g, d) /\ HasTrig(AScale(g, t))
         /\ LET tg == AScale(g, t)
                c  == VScale(VSub(b2, VScale(a, Cos(g))), RDiv(One, Sin(g)))     \* unit, perpendicular to a, in the plane of a and b
            IN  r.t = "Quat" /\ r.c = VAdd(VScale(a, Cos(tg)), VScale(c, Sin(tg)))

\* ---------------------------------------------------------------- arcs               (C15)
\* M is the shortest rotation taking direction s onto direction d (3-D); cosine given by sign and square
ArcRel3(M, s, d, fallback) ==
  /\ IsSquareMat(M, 3) /\ AllRatMat(M) /\ IsRotation(M)
  /\ LET ms == MulMV(M, s)  c == RMul(RSub(Trace(M), One), Half)  ax == Cross(s, d) IN
     /\ Cross(ms, d) = VZero(3) /\ RGt(Dot(ms, d), Zero)                      \* M(s) is parallel to d, same sense
     /\ RSgn(c) = RSgn(Dot(s, d)) /\ RMul(RSq(c), RMul(Mag2(s), Mag2(d))) = RSq(Dot(s, d))   \* rotation angle = angle(s, d)
     /\ ax # VZero(3) => MulMV(M, ax) = ax                                    \* axis perpendicular to both
     /\ (ax = VZero(3) /\ RLt(Dot(s, d), Zero) /\ fallback # <<>>) => MulMV(M, fallback) = fallback
ArcRel2(M, s, d) == /\ IsSquareMat(M, 2) /\ AllRatMat(M) /\ IsRotation(M) /\ MulMV(M, s) = d
BetweenRel(name, s, d, r) ==
  CASE name = "Quaternion" -> r.t = "Quat" /\ SurdQuatOK(r.c) /\ ArcRel3(SurdQMat3(r.c), s, d, <<>>)
    [] name = "Basis3" -> r.t = "Basis" /\ ArcRel3(r.c, s, d, <<>>)
    [] name = "Basis2" -> r.t = "Basis" /\ ArcRel2(r.c, s, d)
    [] OTHER -> FALSE

\* ------------------------------------------------------------------------
GeoFn(op, k, a) ==
  LET tg == Tags(a)  n == Len(a) IN
  CASE op = "basis3_from_quat" /\ tg = <<"Quat">> -> V("Basis", QMat3(a[1].c))
    [] op = "mat_from_basis" /\ tg = <<"Basis">> -> V("Mat", a[1].c)
    [] op = "rotate_vector" /\ tg \in {<<"Quat","Vec">>, <<"Basis","Vec">>} -> V("Vec", RotApply(a[1], a[2].c))
    [] op = "rotate_point" /\ tg \in {<<"Quat","Pt">>, <<"Basis","Pt">>} -> V("Pt", RotApply(a[1], a[2].c))
    [] op = "mul" /\ tg = <<"Basis","Basis">> -> V("Basis", MulMM(a[1].c, a[2].c))
    [] op = "rot_one" /\ tg = <<"T">> -> (CASE Sc(a, 1) = "Quaternion" -> V("Quat", QOne) [] Sc(a, 1) = "Basis3" -> V("Basis", Id(3))
                                            [] Sc(a, 1) = "Basis2" -> V("Basis", Id(2)) [] OTHER -> Undef)
    [] op = "iter_product" /\ n >= 1 /\ tg[1] = "T" /\ Sc(a, 1) \in {"Basis2", "Basis3"} -> V("Basis", FoldVals(a, 2, Id(TypeDim(Sc(a, 1))), MulMM))
    [] op = "transform_point" /\ n = 2 /\ tg[2] = "Pt" /\ tg[1] \in {"Mat", "Dec"} -> V("Pt", TfPoint(a[1], a[2].c))
    [] op = "transform_vector" /\ n = 2 /\ tg[2] = "Vec" /\ tg[1] \in {"Mat", "Dec"} -> V("Vec", TfVector(a[1], a[2].c))
    [] op = "concat" /\ tg = <<"T","Mat","Mat">> -> V("Mat", MulMM(a[2].c, a[3].c))
    [] op = "tf_one" /\ tg = <<"T">> -> TfOne(Sc(a, 1))
    [] op = "dec_new" /\ n = 3 /\ tg[1] = "S" -> DecV(Sc(a, 1), a[2], a[3].c)
    [] op = "mat_from_dec" /\ tg = <<"Dec">> -> V("Mat", MatFromDec(a[1]))
    [] op = "to_perspective" /\ n = 4 /\ IsAngTag(tg[1]) /\ HasTrig(HalfAngle(a[1].c)) -> ToPerspective(a[1].c, Sc(a, 2), Sc(a, 3), Sc(a, 4))
    [] OTHER -> AngFn(op, a)

GeoRelOps == {"from_axis_angle", "from_angle_x", "from_angle_y", "from_angle_z", "from_angle", "from_euler",
              "quat_from_mat3", "quat_from_basis3", "euler_from_quat", "rot_invert_b",
              "inverse_transform", "inverse_transform_vector", "concat_dec", "mul_dec",
              "mat3_look_to", "mat4_look_to", "mat4_look_at", "rot_look_at", "look_at2", "look_at_stable", "tf_look_at",
              "ortho", "frustum", "perspective", "planar",
              "magnitude", "normalize", "normalize_to", "distance", "angle",
              "normalize_ang", "normalize_signed", "opposite", "bisect", "asin", "acos", "atan", "atan2", "turn_div",
              "nlerp", "slerp", "between_vectors", "from_arc"}

GeoRel(op, k, f, a, r) ==
  LET tg == Tags(a)  n == Len(a) IN
  CASE op = "from_axis_angle" /\ n = 3 -> HasTrig(a[3].c) /\ RepresentsRot(Sc(a, 1), r, Rod(a[2].c, a[3].c))
    [] op \in {"from_angle_x", "from_angle_y", "from_angle_z"} /\ n = 2 -> HasTrig(a[2].c) /\ RepresentsRot(Sc(a, 1), r, Rod(AxisOf(op), a[2].c))
    [] op = "from_angle" /\ n = 2 -> HasTrig(a[2].c) /\ RepresentsRot(Sc(a, 1), r, Rot2(a[2].c))
    [] op = "from_euler" /\ n = 2 -> (\A i \in 1..3 : HasTrig(a[2].c[i])) /\ RepresentsRot(Sc(a, 1), r, EulerMat(a[2].c))
    [] op \in {"quat_from_mat3", "quat_from_basis3"} /\ n = 1 -> RepresentsRot("Quaternion", r, a[1].c)
    [] op = "euler_from_quat" /\ n = 1 -> EulerFromQuatRel(a[1].c, r)
    [] op = "rot_invert" /\ tg = <<"Basis">> -> r.t = "Basis" /\ IsInverse(a[1].c, r.c)
    [] op = "inverse_transform" /\ tg = <<"T","Mat">> -> InvertRel(a[2].c, r)
    [] op = "inverse_transform" /\ tg = <<"T","Dec">> -> DecInverseRel(a[2], r)
    [] op = "inverse_transform_vector" /\ n = 2 -> InvVectorRel(a[1], a[2].c, r)
    [] op = "concat" /\ tg = <<"T","Dec","Dec">> -> DecConcatRel(a[2], a[3], r)
    [] op = "mul" /\ tg = <<"Dec","Dec">> -> DecConcatRel(a[1], a[2], r)
    [] op = "mat3_look_to" /\ n = 2 -> r.t = "Mat" /\ LookRel(r.c, a[1].c, a[2].c, IF f = "rh" THEN "rh" ELSE "lh")
    [] op = "mat4_look_to" /\ n = 3 -> r.t = "Mat" /\ Look4Rel(r.c, a[1].c, a[2].c, a[3].c, IF f = "lh" THEN "lh" ELSE "rh")
    [] op = "mat4_look_at" /\ n = 3 -> r.t = "Mat" /\ Look4Rel(r.c, a[1].c, VSub(a[2].c, a[1].c), a[3].c, IF f = "lh" THEN "lh" ELSE "rh")
    [] op = "rot_look_at" /\ n = 3 /\ Sc(a, 1) \in {"Quaternion", "Basis3"} ->
         /\ r.t = (IF Sc(a, 1) = "Quaternion" THEN "Quat" ELSE "Basis") /\ DecRotOK(r)
         /\ LookRel(RotMatOf(r), a[2].c, a[3].c, "lh")
    [] op = "rot_look_at" /\ n = 3 /\ Sc(a, 1) = "Basis2" -> r.t = "Basis" /\ Look2Rel(r.c, a[2].c, a[3].c)
    [] op = "look_at2" /\ n = 3 -> r.t = "Mat" /\ Look2Rel(r.c, a[2].c, a[3].c)
    [] op = "look_at_stable" /\ n = 3 -> r.t = (IF Sc(a, 1) = "Basis2" THEN "Basis" ELSE "Mat") /\ Look2Stable(r.c, a[2].c, Sc(a, 3))
    [] op = "tf_look_at" /\ n = 4 -> TfLookRel(Sc(a, 1), f, a[2].c, a[3].c, a[4].c, r)
    [] op = "ortho" /\ n = 6 -> r.t = "Mat" /\ OrthoRel(r.c, Sc(a, 1), Sc(a, 2), Sc(a, 3), Sc(a, 4), Sc(a, 5), Sc(a, 6))
    [] op = "frustum" /\ n = 6 -> FrustumRel(Sc(a, 1), Sc(a, 2), Sc(a, 3), Sc(a, 4), Sc(a, 5), Sc(a, 6), r)
    [] op = "perspective" /\ n = 4 -> PerspectiveRel(a[1].c, Sc(a, 2), Sc(a, 3), Sc(a, 4), r)
    [] op = "planar" /\ n = 5 -> PlanarRel(a[1].c, Sc(a, 2), Sc(a, 3), Sc(a, 4), Sc(a, 5), r)
    [] op = "magnitude" /\ n = 1 -> r.t = "S" /\ IsScal(r.c[1]) /\ SIsRoot(r.c[1], 1, Mag2(a[1].c))
    [] op = "normalize" /\ n = 1 -> NormalizedRel(a[1], One, r)
    [] op = "normalize_to" /\ n = 2 -> NormalizedRel(a[1], Sc(a, 2), r)
    [] op = "distance" /\ n = 2 -> r.t = "S" /\ IsScal(r.c[1]) /\ SIsRoot(r.c[1], 1, Mag2(VSub(a[2].c, a[1].c)))
    [] op = "angle" /\ n = 2 -> AngleRel(a[1].c, a[2].c, r)
    [] op = "normalize_ang" /\ n = 1 -> r.t = tg[1] /\ IsAng(r.c) /\ SameModTurn(r.c, a[1].c) /\ InRangeQ(r.c, R(0), R(4))
    [] op = "normalize_signed" /\ n = 1 -> r.t = tg[1] /\ IsAng(r.c) /\ SameModTurn(r.c, a[1].c) /\ InRangeQ(r.c, R(-2), R(2))
    [] op = "opposite" /\ n = 1 -> r.t = tg[1] /\ IsAng(r.c) /\ SameModTurn(r.c, AAdd(a[1].c, AQuarters(R(2)))) /\ InRangeQ(r.c, R(0), R(4))
    [] op = "bisect" /\ n = 2 -> r.t = tg[1] /\ BisectRel(a[1].c, a[2].c, r.c)
    [] op = "turn_div" /\ tg = <<"T","I">> -> Same(r, V(Sc(a, 1), AQuarters(Norm(4, Sc(a, 2)))))
    [] op = "asin" /\ n = 2 -> r.t = Sc(a, 1) /\ AsinIs(r.c, Sc(a, 2))
    [] op = "acos" /\ n = 2 -> r.t = Sc(a, 1) /\ AcosIs(r.c, Sc(a, 2))
    [] op = "atan" /\ n = 2 -> r.t = Sc(a, 1) /\ AtanIs(r.c, Sc(a, 2))
    [] op = "atan2" /\ n = 3 -> r.t = Sc(a, 1) /\ Atan2Is(r.c, Sc(a, 2), Sc(a, 3))
    [] op = "nlerp" /\ n = 3 -> NlerpRel(a[1].c, a[2].c, Sc(a, 3), r)
    [] op = "slerp" /\ n = 3 -> SlerpRel(a[1].c, a[2].c, Sc(a, 3), r)
    [] op = "between_vectors" /\ n = 3 -> BetweenRel(Sc(a, 1), a[2].c, a[3].c, r)
    [] op = "from_arc" /\ n = 3 -> r.t = "Quat" /\ SurdQuatOK(r.c) /\
                                   ArcRel3(SurdQMat3(r.c), a[1].c, a[2].c, IF a[3].t = "Some" THEN a[3].c[1].c ELSE <<>>)
    [] OTHER -> FALSE
=============================================================================
