------------------------------ MODULE ApiLin ------------------------------
(* Contracts of the linear-algebra core: vectors, points, matrices,        *)
(* quaternions (C01, C02, C03, C04, C12 and the value half of C16/C17).    *)
(*                                                                         *)
(* A value is a tagged record [t |-> tag, c |-> contents]:                 *)
(*   "S"    <<q>>                 a scalar                                 *)
(*   "Vec"  <<q1..qn>>            VectorN          "Pt"  likewise PointN   *)
(*   "Mat"  <<col1..coln>>        MatrixN, col = <<r1..rn>>  (column-major)*)
(*   "Quat" <<w, x, y, z>>        scalar part first, as Quaternion::new    *)
(*   "I" <<int>>  "B" <<bool>>  "T" <<type name>>  "Tup" <<values>>        *)
(*   "None" <<>>  "Some" <<v>>  "Panic" <<>>   -- a panic is data          *)
(* The operand form `f` (by value / by reference / compound assignment)    *)
(* is deliberately NOT an input of any contract below: that is C17.        *)
EXTENDS Lin, SequencesExt

V(t, c) == [t |-> t, c |-> c]
Same(r, e) == r.t = e.t /\ r.c = e.c
Undef  == V("Undef", <<>>)
PanicV == V("Panic", <<>>)
NoneV  == V("None", <<>>)
SomeV(v) == V("Some", <<v>>)
Sv(q)  == V("S", <<q>>)
Bv(b)  == V("B", <<b>>)
Iv(i)  == V("I", <<i>>)
Tags(a) == [i \in 1..Len(a) |-> a[i].t]
Sc(a, i) == a[i].c[1]            \* the scalar / integer / name held by argument i

IsArr(t) == t \in {"Vec", "Pt", "Quat"}
\* apply F to every scalar of a container
MapC(x, F(_)) == IF x.t = "Mat" THEN V("Mat", MMap(x.c, F)) ELSE V(x.t, VMap(x.c, F))
ZipC(x, y, F(_, _)) == V(x.t, [i \in 1..Len(x.c) |-> F(x.c[i], y.c[i])])

TypeDim(name) == CASE name \in {"Vector1", "Point1"} -> 1
                   [] name \in {"Vector2", "Point2", "Matrix2", "Basis2"} -> 2
                   [] name \in {"Vector3", "Point3", "Matrix3", "Basis3"} -> 3
                   [] name \in {"Vector4", "Matrix4", "Quaternion"} -> 4
                   [] OTHER -> 0
TypeTag(name) == CASE name \in {"Vector1", "Vector2", "Vector3", "Vector4"} -> "Vec"
                   [] name \in {"Point1", "Point2", "Point3"} -> "Pt"
                   [] name \in {"Matrix2", "Matrix3", "Matrix4"} -> "Mat"
                   [] name = "Quaternion" -> "Quat"
                   [] OTHER -> "Undef"

\* ---- quaternion algebra (Hamilton), c = <<w, x, y, z>>
QVec(q) == <<q[2], q[3], q[4]>>
QMul(a, b) ==
  << RSub(RSub(RSub(RMul(a[1], b[1]), RMul(a[2], b[2])), RMul(a[3], b[3])), RMul(a[4], b[4])),
     RSub(RAdd(RAdd(RMul(a[1], b[2]), RMul(a[2], b[1])), RMul(a[3], b[4])), RMul(a[4], b[3])),
     RSub(RAdd(RAdd(RMul(a[1], b[3]), RMul(a[3], b[1])), RMul(a[4], b[2])), RMul(a[2], b[4])),
     RSub(RAdd(RAdd(RMul(a[1], b[4]), RMul(a[4], b[1])), RMul(a[2], b[3])), RMul(a[3], b[2])) >>
QConj(q) == <<q[1], RNeg(q[2]), RNeg(q[3]), RNeg(q[4])>>
QOne  == <<One, Zero, Zero, Zero>>
QZero == <<Zero, Zero, Zero, Zero>>
\* q*v = v + 2 qv x (qv x v + s v)                                     (C04)
QRot(q, v) == LET qv == QVec(q) IN VAdd(v, VScale(Cross(qv, VAdd(Cross(qv, v), VScale(v, q[1]))), Two))
\* the rotation matrix of a quaternion: column j is the image of basis vector j   (C05)
QMat3(q) == LET w == q[1] x == q[2] y == q[3] z == q[4]
                t(a, b) == RMul(Two, RMul(a, b))
            IN << << RSub(RSub(One, t(y, y)), t(z, z)), RAdd(t(x, y), t(z, w)), RSub(t(x, z), t(y, w)) >>,
                  << RSub(t(x, y), t(z, w)), RSub(RSub(One, t(x, x)), t(z, z)), RAdd(t(y, z), t(x, w)) >>,
                  << RAdd(t(x, z), t(y, w)), RSub(t(y, z), t(x, w)), RSub(RSub(One, t(x, x)), t(y, y)) >> >>

\* left fold of the contents of a[from..] with a binary operator on contents
FoldVals(a, from, acc, Op(_, _)) == FoldLeft(Op, acc, [i \in 1..(Len(a) - from + 1) |-> a[from + i - 1].c])

ZeroOf(name) == LET n == TypeDim(name) IN
                CASE TypeTag(name) = "Vec" -> V("Vec", VZero(n))
                  [] TypeTag(name) = "Pt" -> V("Pt", VZero(n))
                  [] TypeTag(name) = "Mat" -> V("Mat", MZero(n))
                  [] TypeTag(name) = "Quat" -> V("Quat", QZero)
                  [] OTHER -> Undef

InRange(i, n) == i >= 0 /\ i < n

\* ------------------------------------------------------------------------
\* LinFn(op, k, a): the value every functional op of this family must return.
\* k is the scalar kind ("Q", "f64", "i16", ...): integer kinds divide with
\* truncation, field kinds exactly.  Undef = not an op of this family.
LinFn(op, k, a) ==
  LET tg == Tags(a)  n == Len(a) IN
  CASE op = "add" /\ tg \in {<<"Vec","Vec">>, <<"Quat","Quat">>} -> V(tg[1], VAdd(a[1].c, a[2].c))
    [] op = "add" /\ tg = <<"Pt","Vec">> -> V("Pt", VAdd(a[1].c, a[2].c))
    [] op = "add" /\ tg = <<"Mat","Mat">> -> V("Mat", MAdd(a[1].c, a[2].c))
    [] op = "sub" /\ tg \in {<<"Vec","Vec">>, <<"Quat","Quat">>} -> V(tg[1], VSub(a[1].c, a[2].c))
    [] op = "sub" /\ tg = <<"Pt","Vec">> -> V("Pt", VSub(a[1].c, a[2].c))
    [] op = "sub" /\ tg = <<"Pt","Pt">> -> V("Vec", VSub(a[1].c, a[2].c))
    [] op = "sub" /\ tg = <<"Mat","Mat">> -> V("Mat", MSub(a[1].c, a[2].c))
    [] op = "neg" /\ tg \in {<<"Vec">>, <<"Quat">>} -> V(tg[1], VNeg(a[1].c))
    [] op = "neg" /\ tg = <<"Mat">> -> V("Mat", MNeg(a[1].c))
    [] op = "mul_s" /\ n = 2 /\ tg[2] = "S" /\ tg[1] \in {"Vec","Pt","Quat","Mat"} -> MapC(a[1], LAMBDA x : RMul(x, Sc(a, 2)))
    [] op = "div_s" /\ n = 2 /\ tg[2] = "S" /\ tg[1] \in {"Vec","Pt","Quat","Mat"} -> MapC(a[1], LAMBDA x : Dv(k, x, Sc(a, 2)))
    [] op = "rem_s" /\ n = 2 /\ tg[2] = "S" /\ tg[1] \in {"Vec","Pt","Quat","Mat"} -> MapC(a[1], LAMBDA x : Rm(k, x, Sc(a, 2)))
    \* scalar on the left: the primitive operation with the scalar as LEFT operand       (C17)
    [] op = "s_mul" /\ n = 2 /\ tg[1] = "S" /\ tg[2] \in {"Vec","Pt","Quat","Mat"} -> MapC(a[2], LAMBDA x : RMul(Sc(a, 1), x))
    [] op = "s_div" /\ n = 2 /\ tg[1] = "S" /\ tg[2] \in {"Vec","Pt","Quat","Mat"} -> MapC(a[2], LAMBDA x : Dv(k, Sc(a, 1), x))
    [] op = "s_rem" /\ n = 2 /\ tg[1] = "S" /\ tg[2] \in {"Vec","Pt","Mat"} -> MapC(a[2], LAMBDA x : Rm(k, Sc(a, 1), x))
    \* element-wise family, by container and by scalar
    [] op = "add_ew" /\ tg \in {<<"Vec","Vec">>, <<"Pt","Pt">>} -> ZipC(a[1], a[2], RAdd)
    [] op = "sub_ew" /\ tg \in {<<"Vec","Vec">>, <<"Pt","Pt">>} -> ZipC(a[1], a[2], RSub)
    [] op = "mul_ew" /\ tg \in {<<"Vec","Vec">>, <<"Pt","Pt">>} -> ZipC(a[1], a[2], RMul)
    [] op = "div_ew" /\ tg \in {<<"Vec","Vec">>, <<"Pt","Pt">>} -> ZipC(a[1], a[2], LAMBDA x, y : Dv(k, x, y))
    [] op = "rem_ew" /\ tg \in {<<"Vec","Vec">>, <<"Pt","Pt">>} -> ZipC(a[1], a[2], LAMBDA x, y : Rm(k, x, y))
    [] op = "add_ew" /\ tg \in {<<"Vec","S">>, <<"Pt","S">>} -> MapC(a[1], LAMBDA x : RAdd(x, Sc(a, 2)))
    [] op = "sub_ew" /\ tg \in {<<"Vec","S">>, <<"Pt","S">>} -> MapC(a[1], LAMBDA x : RSub(x, Sc(a, 2)))
    [] op = "mul_ew" /\ tg \in {<<"Vec","S">>, <<"Pt","S">>} -> MapC(a[1], LAMBDA x : RMul(x, Sc(a, 2)))
    [] op = "div_ew" /\ tg \in {<<"Vec","S">>, <<"Pt","S">>} -> MapC(a[1], LAMBDA x : Dv(k, x, Sc(a, 2)))
    [] op = "rem_ew" /\ tg \in {<<"Vec","S">>, <<"Pt","S">>} -> MapC(a[1], LAMBDA x : Rm(k, x, Sc(a, 2)))
    \* inner products and folds
    [] op = "dot" /\ tg \in {<<"Vec","Vec">>, <<"Pt","Vec">>, <<"Quat","Quat">>} -> Sv(Dot(a[1].c, a[2].c))
    [] op = "mag2" /\ tg \in {<<"Vec">>, <<"Quat">>} -> Sv(Mag2(a[1].c))
    [] op = "sum" /\ tg \in {<<"Vec">>, <<"Pt">>} -> Sv(SumSeq(a[1].c))
    [] op = "product" /\ tg \in {<<"Vec">>, <<"Pt">>} -> Sv(ProdSeq(a[1].c))
    [] op = "distance2" /\ tg \in {<<"Vec","Vec">>, <<"Pt","Pt">>, <<"Quat","Quat">>} -> Sv(Mag2(VSub(a[2].c, a[1].c)))
    [] op = "lerp" /\ tg \in {<<"Vec","Vec","S">>, <<"Quat","Quat","S">>} -> V(tg[1], VAdd(a[1].c, VScale(VSub(a[2].c, a[1].c), Sc(a, 3))))
    [] op = "lerp" /\ tg = <<"Mat","Mat","S">> -> V("Mat", MAdd(a[1].c, MScale(MSub(a[2].c, a[1].c), Sc(a, 3))))
    [] op = "project_on" /\ tg = <<"Vec","Vec">> -> V("Vec", VScale(a[2].c, Dv(k, Dot(a[1].c, a[2].c), Mag2(a[2].c))))
    [] op = "is_zero" /\ tg = <<"Vec">> -> Bv(IsZeroVec(a[1].c))
    [] op = "cross" /\ tg = <<"Vec","Vec">> -> V("Vec", Cross(a[1].c, a[2].c))
    [] op = "perp_dot" /\ tg = <<"Vec","Vec">> -> Sv(PerpDot(a[1].c, a[2].c))
    \* constructors and positional ops                                           (C16)
    [] op = "index" /\ tg \in {<<"Vec","I">>, <<"Pt","I">>, <<"Quat","I">>} ->
         IF InRange(Sc(a, 2), Len(a[1].c))
         THEN (IF tg[1] = "Quat" THEN Sv(Append(QVec(a[1].c), a[1].c[1])[Sc(a, 2) + 1]) ELSE Sv(a[1].c[Sc(a, 2) + 1]))
         ELSE PanicV
    [] op = "from_value" /\ tg = <<"T","S">> -> V(TypeTag(Sc(a, 1)), VConst(TypeDim(Sc(a, 1)), Sc(a, 2)))
    [] op = "zero" /\ tg = <<"T">> -> ZeroOf(Sc(a, 1))
    [] op = "one" /\ tg = <<"T">> /\ Sc(a, 1) = "Quaternion" -> V("Quat", QOne)
    [] op = "len" /\ tg = <<"T">> -> Iv(TypeDim(Sc(a, 1)))
    [] op = "origin" /\ tg = <<"T">> -> V("Pt", VZero(TypeDim(Sc(a, 1))))
    [] op = "unit" /\ tg = <<"T","I">> -> V("Vec", VUnit(TypeDim(Sc(a, 1)), Sc(a, 2) + 1))
    [] op = "iter_sum" /\ n >= 1 /\ tg[1] = "T" /\ TypeTag(Sc(a, 1)) \in {"Vec", "Quat"} ->
         V(TypeTag(Sc(a, 1)), FoldVals(a, 2, ZeroOf(Sc(a, 1)).c, VAdd))
    [] op = "iter_sum" /\ n >= 1 /\ tg[1] = "T" /\ TypeTag(Sc(a, 1)) = "Mat" -> V("Mat", FoldVals(a, 2, MZero(TypeDim(Sc(a, 1))), MAdd))
    [] op = "iter_product" /\ n >= 1 /\ tg[1] = "T" /\ TypeTag(Sc(a, 1)) = "Mat" -> V("Mat", FoldVals(a, 2, Id(TypeDim(Sc(a, 1))), MulMM))
    [] op = "iter_product" /\ n >= 1 /\ tg[1] = "T" /\ Sc(a, 1) = "Quaternion" -> V("Quat", FoldVals(a, 2, QOne, QMul))
    [] op = "extend" /\ tg = <<"Vec","S">> -> V("Vec", Append(a[1].c, Sc(a, 2)))
    [] op = "truncate" /\ tg = <<"Vec">> -> V("Vec", SubSeq(a[1].c, 1, Len(a[1].c) - 1))
    [] op = "truncate_n" /\ tg = <<"Vec","I">> ->
         IF InRange(Sc(a, 2), 4) THEN V("Vec", [i \in 1..3 |-> a[1].c[IF i <= Sc(a, 2) THEN i ELSE i + 1]]) ELSE PanicV
    [] op = "vec_new" /\ n >= 1 -> V("Vec", [i \in 1..n |-> Sc(a, i)])
    [] op = "pt_new" /\ n >= 1 -> V("Pt", [i \in 1..n |-> Sc(a, i)])
    [] op = "mat_new" /\ n \in {4, 9, 16} -> V("Mat", FromFlat([i \in 1..n |-> Sc(a, i)], ISqrt(n)))
    [] op = "from_cols" /\ n >= 2 -> V("Mat", [i \in 1..n |-> a[i].c])
    [] op = "quat_new" /\ n = 4 -> V("Quat", <<Sc(a, 1), Sc(a, 2), Sc(a, 3), Sc(a, 4)>>)      \* scalar part FIRST
    [] op = "from_sv" /\ tg = <<"S","Vec">> -> V("Quat", <<Sc(a, 1)>> \o a[2].c)
    \* points                                                                      (C12)
    [] op = "to_vec" /\ tg = <<"Pt">> -> V("Vec", a[1].c)
    [] op = "from_vec" /\ tg = <<"Vec">> -> V("Pt", a[1].c)
    [] op = "midpoint" /\ tg = <<"Pt","Pt">> -> V("Pt", [i \in 1..Len(a[1].c) |-> RAdd(a[1].c[i], Dv(k, RSub(a[2].c[i], a[1].c[i]), Two))])
    [] op = "centroid" /\ n >= 1 /\ tg[1] = "Pt" ->
         V("Pt", VMap(FoldVals(a, 1, VZero(Len(a[1].c)), VAdd), LAMBDA x : Dv(k, x, R(n))))
    [] op = "to_homogeneous" /\ tg = <<"Pt">> -> V("Vec", Append(a[1].c, One))
    [] op = "from_homogeneous" /\ tg = <<"Vec">> -> V("Pt", [i \in 1..3 |-> RMul(a[1].c[i], Dv(k, One, a[1].c[4]))])
    \* matrices                                                                    (C01, C02)
    [] op = "mul" /\ tg = <<"Mat","Vec">> -> V("Vec", MulMV(a[1].c, a[2].c))
    [] op = "mul" /\ tg = <<"Mat","Mat">> -> V("Mat", MulMM(a[1].c, a[2].c))
    [] op = "mul" /\ tg = <<"Quat","Quat">> -> V("Quat", QMul(a[1].c, a[2].c))
    [] op = "mul" /\ tg = <<"Quat","Vec">> -> V("Vec", QRot(a[1].c, a[2].c))
    [] op \in {"transpose", "transpose_self"} /\ tg = <<"Mat">> -> V("Mat", Transpose(a[1].c))
    [] op = "det" /\ tg = <<"Mat">> -> Sv(Det(a[1].c))
    [] op = "trace" /\ tg = <<"Mat">> -> Sv(Trace(a[1].c))
    [] op = "diagonal" /\ tg = <<"Mat">> -> V("Vec", Diagonal(a[1].c))
    [] op = "row" /\ tg = <<"Mat","I">> -> IF InRange(Sc(a, 2), Len(a[1].c)) THEN V("Vec", Row(a[1].c, Sc(a, 2) + 1)) ELSE PanicV
    [] op = "col" /\ tg = <<"Mat","I">> -> IF InRange(Sc(a, 2), Len(a[1].c)) THEN V("Vec", a[1].c[Sc(a, 2) + 1]) ELSE PanicV
    [] op = "swap_rows" /\ tg = <<"Mat","I","I">> ->
         IF InRange(Sc(a, 2), Len(a[1].c)) /\ InRange(Sc(a, 3), Len(a[1].c))
         THEN V("Mat", [c \in 1..Len(a[1].c) |-> Swap(a[1].c[c], Sc(a, 2) + 1, Sc(a, 3) + 1)]) ELSE PanicV
    [] op = "swap_cols" /\ tg = <<"Mat","I","I">> ->
         IF InRange(Sc(a, 2), Len(a[1].c)) /\ InRange(Sc(a, 3), Len(a[1].c))
         THEN V("Mat", Swap(a[1].c, Sc(a, 2) + 1, Sc(a, 3) + 1)) ELSE PanicV
    [] op = "swap_elems" /\ tg = <<"Mat","I","I","I","I">> ->
         LET M == a[1].c  ac == Sc(a, 2) + 1  ar == Sc(a, 3) + 1  bc == Sc(a, 4) + 1  br == Sc(a, 5) + 1 IN
         IF \A i \in 2..5 : InRange(Sc(a, i), Len(M))
         THEN V("Mat", [c \in 1..Len(M) |-> [r \in 1..Len(M) |->
                 IF c = ac /\ r = ar THEN M[bc][br] ELSE IF c = bc /\ r = br THEN M[ac][ar] ELSE M[c][r]]])
         ELSE PanicV
    [] op = "replace_col" /\ tg = <<"Mat","I","Vec">> ->
         IF InRange(Sc(a, 2), Len(a[1].c))
         THEN V("Tup", << V("Mat", [c \in 1..Len(a[1].c) |-> IF c = Sc(a, 2) + 1 THEN a[3].c ELSE a[1].c[c]]), V("Vec", a[1].c[Sc(a, 2) + 1]) >>)
         ELSE PanicV
    [] op = "mat_from_value" /\ tg = <<"T","S">> -> V("Mat", Diag(VConst(TypeDim(Sc(a, 1)), Sc(a, 2))))
    [] op = "from_diagonal" /\ tg = <<"Vec">> -> V("Mat", Diag(a[1].c))
    [] op = "identity" /\ tg = <<"T">> -> V("Mat", Id(TypeDim(Sc(a, 1))))
    \* homogeneous constructors: scaling by the factors, displacement by the offset   (C01)
    [] op = "from_translation" /\ tg = <<"Vec">> ->
         LET m == Len(a[1].c) + 1 IN V("Mat", [c \in 1..m |-> IF c = m THEN Append(a[1].c, One) ELSE VUnit(m, c)])
    [] op = "from_scale" /\ tg = <<"T","S">> ->
         LET m == TypeDim(Sc(a, 1)) IN V("Mat", Diag([i \in 1..m |-> IF i = m THEN One ELSE Sc(a, 2)]))
    [] op = "from_nonuniform_scale" /\ n \in {2, 3} -> V("Mat", Diag([i \in 1..(n + 1) |-> IF i = n + 1 THEN One ELSE Sc(a, i)]))
    [] op = "embed" /\ tg = <<"Mat","I">> /\ Sc(a, 2) > Len(a[1].c) -> V("Mat", Embed(a[1].c, Sc(a, 2)))
    \* quaternions                                                                   (C04, C05)
    [] op = "conjugate" /\ tg = <<"Quat">> -> V("Quat", QConj(a[1].c))
    [] op = "rot_invert" /\ tg = <<"Quat">> -> V("Quat", VMap(QConj(a[1].c), LAMBDA x : RDiv(x, Mag2(a[1].c))))
    [] op = "mat3_from_quat" /\ tg = <<"Quat">> -> V("Mat", QMat3(a[1].c))
    [] op = "mat4_from_quat" /\ tg = <<"Quat">> -> V("Mat", Embed(QMat3(a[1].c), 4))
    [] OTHER -> Undef

\* ------------------------------------------------------------------------
\* relational contracts of this family
IsInverse(M, N) == /\ Len(N) = Len(M) /\ \A c \in 1..Len(N) : Len(N[c]) = Len(M)
                   /\ \A c \in 1..Len(N) : \A r \in 1..Len(N) : IsRat(N[c][r])
                   /\ MulMM(M, N) = Id(Len(M)) /\ MulMM(N, M) = Id(Len(M))
\* invert() is None exactly when the determinant is zero, else a two-sided inverse  (C02)
InvertRel(M, r) == \/ r.t = "None" /\ Det(M) = Zero
                   \/ r.t = "Some" /\ Det(M) # Zero /\ r.c[1].t = "Mat" /\ IsInverse(M, r.c[1].c)

LinRelOps == {"invert", "inverse_transform_m"}
LinRel(op, k, a, r) == CASE op \in {"invert", "inverse_transform_m"} /\ Tags(a) = <<"Mat">> -> InvertRel(a[1].c, r)
                         [] OTHER -> FALSE
=============================================================================
