------------------------------- MODULE Rat -------------------------------
(* Exact rational arithmetic for the cgmath model.                          *)
(* A rational is a normalised pair <<n, d>> with d > 0 and gcd(|n|, d) = 1. *)
(* d = 0 encodes the IEEE specials: <<1,0>> = +inf, <<-1,0>> = -inf,        *)
(* <<0,0>> = NaN.  TLC integers are 32-bit and overflow aborts the run, so  *)
(* addition goes through the lcm and multiplication cross-cancels first.    *)
EXTENDS Integers, Sequences, TLC

Abs(x) == IF x < 0 THEN -x ELSE x
Sgn(x) == IF x < 0 THEN -1 ELSE IF x > 0 THEN 1 ELSE 0
Max2(a, b) == IF a >= b THEN a ELSE b
Min2(a, b) == IF a <= b THEN a ELSE b

RECURSIVE Gcd(_, _)
Gcd(a, b) == IF b = 0 THEN a ELSE Gcd(b, a % b)

\* Rust-style truncating integer division and remainder (TLA+ \div floors)
TruncDiv(a, b) == Sgn(a) * Sgn(b) * (Abs(a) \div Abs(b))
TruncRem(a, b) == a - b * TruncDiv(a, b)

Norm(n, d) == IF d = 0 THEN <<Sgn(n), 0>>
              ELSE LET g == Gcd(Abs(n), Abs(d))
                       s == IF d < 0 THEN -1 ELSE 1
                   IN  <<s * (n \div g), s * (d \div g)>>
R(n) == <<n, 1>>
Zero == R(0)
One  == R(1)
Two  == R(2)
Half == <<1, 2>>
NaN  == <<0, 0>>
IsRat(a)    == Len(a) = 2 /\ a[2] > 0          \* finite rational
IsFinite(a) == IsRat(a)

RNeg(a) == <<-a[1], a[2]>>
RAdd(a, b) ==
    IF a[2] = 0 \/ b[2] = 0
    THEN IF a = NaN \/ b = NaN THEN NaN
         ELSE IF a[2] = 0 /\ b[2] = 0 THEN (IF a = b THEN a ELSE NaN)
         ELSE IF a[2] = 0 THEN a ELSE b
    ELSE LET g == Gcd(a[2], b[2])
         IN  Norm(a[1] * (b[2] \div g) + b[1] * (a[2] \div g), (a[2] \div g) * b[2])
RSub(a, b) == RAdd(a, RNeg(b))
RMul(a, b) ==
    IF a[2] = 0 \/ b[2] = 0
    THEN IF a = NaN \/ b = NaN \/ a[1] = 0 \/ b[1] = 0 THEN NaN ELSE <<Sgn(a[1]) * Sgn(b[1]), 0>>
    ELSE LET g1 == Gcd(Abs(a[1]), b[2])
             g2 == Gcd(Abs(b[1]), a[2])
             x1 == IF g1 = 0 THEN 1 ELSE g1
             x2 == IF g2 = 0 THEN 1 ELSE g2
         IN  Norm((a[1] \div x1) * (b[1] \div x2), (a[2] \div x2) * (b[2] \div x1))
RInv(a) == IF a[2] = 0 THEN (IF a = NaN THEN NaN ELSE Zero)
           ELSE IF a[1] = 0 THEN <<1, 0>>
           ELSE IF a[1] < 0 THEN <<-a[2], -a[1]>> ELSE <<a[2], a[1]>>
RDiv(a, b) == IF b[2] # 0 /\ b[1] = 0
              THEN (IF a[2] = 0 THEN (IF a = NaN THEN NaN ELSE a) ELSE <<Sgn(a[1]), 0>>)   \* x/0 = +-inf, 0/0 = NaN
              ELSE RMul(a, RInv(b))
RLt(a, b) == a[1] * b[2] < b[1] * a[2]
RLe(a, b) == a[1] * b[2] <= b[1] * a[2]
RGt(a, b) == RLt(b, a)
RGe(a, b) == RLe(b, a)
RSgn(a) == Sgn(a[1])
RAbs(a) == <<Abs(a[1]), a[2]>>
RMin(a, b) == IF RLe(a, b) THEN a ELSE b
RMax(a, b) == IF RLe(a, b) THEN b ELSE a
RSq(a) == RMul(a, a)
\* integer part toward zero, and the fmod-style remainder a - trunc(a/b)*b
TruncQ(a) == TruncDiv(a[1], a[2])
RRem(a, b) == RSub(a, RMul(R(TruncQ(RDiv(a, b))), b))
RIsInt(a) == a[2] = 1

\* exact integer square root by binary search (linear recursion overflows the Java stack)
RECURSIVE ISqrtB(_, _, _)
ISqrtB(n, lo, hi) == IF lo >= hi THEN lo
                     ELSE LET mid == (lo + hi + 1) \div 2
                          IN  IF mid * mid <= n THEN ISqrtB(n, mid, hi) ELSE ISqrtB(n, lo, mid - 1)
ISqrt(n) == ISqrtB(n, 0, Min2(n, 46340))
IsSquare(n) == n >= 0 /\ ISqrt(n) * ISqrt(n) = n
RIsSquare(a) == IsRat(a) /\ IsSquare(a[1]) /\ IsSquare(a[2])
RSqrt(a) == <<ISqrt(a[1]), ISqrt(a[2])>>       \* defined when RIsSquare(a)

\* the two scalar kinds: fields (exact Q, f32, f64) and Rust integers
IsField(k) == k \in {"Q", "f64", "f32"}
Dv(k, a, b) == IF IsField(k) THEN RDiv(a, b) ELSE R(TruncDiv(a[1], b[1]))
Rm(k, a, b) == IF IsField(k) THEN RRem(a, b) ELSE R(TruncRem(a[1], b[1]))
=============================================================================
