------------------------------ MODULE SqrtRat ------------------------------
(* Scalars that may be square roots: a logged scalar is either a rational   *)
(* <<n,d>> or a "surd" <<sg,n,d>> = sg*sqrt(n/d), sg in {-1,1}.  Both are   *)
(* compared through the canonical pair (sign, square).  Products of two     *)
(* components of the same normalised vector are rational again (SProd), so  *)
(* quadratic forms of normalised results are evaluated exactly.             *)
EXTENDS Rat

IsSurd(x)  == Len(x) = 3 /\ x[1] \in {-1, 1} /\ x[3] > 0 /\ x[2] > 0
IsScal(x)  == IsRat(x) \/ IsSurd(x)
SSign(x)   == IF Len(x) = 2 THEN Sgn(x[1]) ELSE x[1]
SSq(x)     == IF Len(x) = 2 THEN RSq(x) ELSE Norm(x[2], x[3])      \* the square, a rational
SCanon(x)  == <<SSign(x), SSq(x)>>
SEq(x, y)  == SCanon(x) = SCanon(y)
\* x equals sg*sqrt(q) for a rational q >= 0
SIsRoot(x, sg, q) == SCanon(x) = <<(IF q = Zero THEN 0 ELSE sg), q>>
\* product of two scalars when it is rational (both rational, or the radicands multiply to a square)
BothRat(x, y) == Len(x) = 2 /\ Len(y) = 2
SProdOK(x, y) == BothRat(x, y) \/ RIsSquare(RMul(SSq(x), SSq(y)))
SProd(x, y)   == IF BothRat(x, y) THEN RMul(x, y) ELSE RMul(R(SSign(x) * SSign(y)), RSqrt(RMul(SSq(x), SSq(y))))
=============================================================================
