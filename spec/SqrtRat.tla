------------------------------ MODULE SqrtRat ------------------------------
(* Scalars that may be square roots: a logged scalar is either a rational   *)
(* <<n,d>> or a "surd" <<sg,n,d>> = sg*sqrt(n/d), sg in {-1,1}.  Both are   *)
(* compared through the canonical pair (sign, square).  Products of two     *)
(* components of the same normalised vector are rational again (SProd), so  *)
(* quadratic forms of normalised results are evaluated exactly.             *)
EXTENDS Rat

IsSurd(x)  == Len(x) = 3 /\ x[1] \in {-1, 1} /\ x[3] > 0 /\ x[2] > 0
IsScal(x)  == IsRat(x) \/ IsSurd(x)
SSign(x)   == IF Len(x) = 2 THEN Sgn(x[1]) ELSE x[1]
SSq(x)     == IF Len(x) = 2 THEN RSq(x) ELSE Norm(x[2], x[3])      \* the square, a rational
SCanon(x)  == <<SSign(x), SSq(x)>>
SEq(x, y)  == SCanon(x) = SCanon(y)
\* x equals sg*sqrt(q) for a rational q >= 0
SIsRoot(x, sg, q) == SCanon(x) = <<(IF q = Zero THEN 0 ELSE sg), q>>
\* product of two scalars when it is rational (both rational, or the radicands multiply to a square)
BothRat(x, y) == Len(x) = 2 /\ Len(y) = 2
\* sqrt(a/b) * sqrt(c/d) without forming the products a*c, b*d (32-bit budget): cancel across, then note that
\* a'c' with a', c' coprime after removing g = gcd is a square iff a' and c' both are.
SurdParts(x, y) ==
  LET p == SSq(x)  q == SSq(y)
      x1 == Gcd(p[1], q[2])  x2 == Gcd(q[1], p[2])
      a == p[1] \div (IF x1 = 0 THEN 1 ELSE x1)  d == q[2] \div (IF x1 = 0 THEN 1 ELSE x1)
      c == q[1] \div (IF x2 = 0 THEN 1 ELSE x2)  b == p[2] \div (IF x2 = 0 THEN 1 ELSE x2)
      gn == Gcd(a, c)  gd == Gcd(b, d)
      g1 == IF gn = 0 THEN 1 ELSE gn  g2 == IF gd = 0 THEN 1 ELSE gd
  IN  <<a \div g1, c \div g1, g1, b \div g2, d \div g2, g2>>
SProdOK(x, y) == BothRat(x, y) \/ LET s == SurdParts(x, y) IN IsSquare(s[1]) /\ IsSquare(s[2]) /\ IsSquare(s[4]) /\ IsSquare(s[5])
SProd(x, y)   == IF BothRat(x, y) THEN RMul(x, y)
                 ELSE LET s == SurdParts(x, y) IN
                      Norm(SSign(x) * SSign(y) * s[3] * ISqrt(s[1]) * ISqrt(s[2]), s[6] * ISqrt(s[4]) * ISqrt(s[5]))
=============================================================================
