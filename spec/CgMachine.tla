----------------------------- MODULE CgMachine -----------------------------
(* cgmath as an abstract register machine.                                  *)
(*   reg   : register file (RegId -> value or Nil)    -- the abstract state  *)
(*   steps : number of calls so far                                          *)
(*   init  : the registers as loaded, hist : the calls made (generation)     *)
(* A behaviour is a straight-line program over the public API.  Load fills   *)
(* an empty register with a seed value (only before the first call);         *)
(* Call(op, f, as, d) applies an operator in operand form f to registers as  *)
(* and stores the value the contract prescribes in register d.  The form is  *)
(* chosen independently at every step and never influences the stored value: *)
(* that is property C17 on the machine.  With `-simulate` TLC walks random   *)
(* programs of the machine; each complete walk is emitted and replayed in    *)
(* the real crate (pipeline A), where every recorded call must satisfy the   *)
(* same contract (Trace.tla).                                                *)
EXTENDS Fn, Json
CONSTANTS NR,        \* registers used by the machine
          MaxSteps,  \* calls per program
          MaxMag     \* magnitude budget (numerators and denominators) keeping TLC's 32-bit integers safe
VARIABLES reg, steps, init, hist
vars == <<reg, steps, init, hist>>
RegId == 1..NR
Nil == [t |-> "Nil", c |-> <<>>]

\* ---- seed values: dense, non-symmetric, general position
SeedVec == {<<R(1), R(-2), R(3)>>, <<<<1, 2>>, R(0), R(-1)>>, <<R(2), <<3, 2>>, R(-1)>>, <<R(-3), R(1), <<2, 3>>>>}
SeedMat == {<< <<R(1), R(2), R(0)>>, <<R(0), R(1), R(-1)>>, <<R(2), R(0), R(1)>> >>,
            << <<R(2), <<-1, 2>>, R(1)>>, <<R(3), R(0), R(-2)>>, <<R(1), R(1), R(4)>> >>,
            << <<R(0), R(1), R(0)>>, <<R(-1), R(0), R(0)>>, <<R(0), R(0), R(1)>> >>}
SeedQuat == {<<<<1, 2>>, <<1, 2>>, <<1, 2>>, <<-1, 2>>>>, <<R(1), R(2), R(-1), R(0)>>, <<<<2, 3>>, <<-1, 3>>, R(0), <<2, 3>>>>}
SeedScal == {R(2), <<-1, 2>>, R(3), <<1, 3>>}
SeedPt == {<<R(0), R(1), R(-1)>>, <<R(2), <<-1, 2>>, R(3)>>, <<<<1, 3>>, R(-2), R(1)>>}
SeedVals == {V("Vec", x) : x \in SeedVec} \cup {V("Mat", x) : x \in SeedMat} \cup {V("Quat", x) : x \in SeedQuat} \cup {V("S", <<x>>) : x \in SeedScal}
            \cup {V("Pt", x) : x \in SeedPt}

\* ---- the operator table of the machine: name, argument tags, the operand forms that exist
F4A == {"vv", "rv", "vr", "rr", "as"}
F4 == {"vv", "rv", "vr", "rr"}
F2A == {"vv", "rv", "as"}
OpTable == {
  <<"add", <<"Vec", "Vec">>, F4A>>, <<"sub", <<"Vec", "Vec">>, F4A>>, <<"add", <<"Mat", "Mat">>, F4A>>, <<"sub", <<"Mat", "Mat">>, F4A>>,
  <<"add", <<"Quat", "Quat">>, F4A>>, <<"sub", <<"Quat", "Quat">>, F4A>>,
  <<"neg", <<"Vec">>, {"v"}>>, <<"neg", <<"Mat">>, {"v", "r"}>>, <<"neg", <<"Quat">>, {"v", "r"}>>,
  <<"mul_s", <<"Vec", "S">>, F2A>>, <<"mul_s", <<"Mat", "S">>, F2A>>, <<"mul_s", <<"Quat", "S">>, F2A>>,
  <<"div_s", <<"Vec", "S">>, F2A>>, <<"div_s", <<"Quat", "S">>, F2A>>,
  <<"mul", <<"Mat", "Vec">>, F4>>, <<"mul", <<"Mat", "Mat">>, F4>>, <<"mul", <<"Quat", "Quat">>, F4>>, <<"mul", <<"Quat", "Vec">>, F4>>,
  <<"dot", <<"Vec", "Vec">>, {"m", "free"}>>, <<"cross", <<"Vec", "Vec">>, {"m"}>>, <<"transpose", <<"Mat">>, {"m"}>>, <<"transpose_self", <<"Mat">>, {"m"}>>,
  <<"conjugate", <<"Quat">>, {"m"}>>, <<"mat3_from_quat", <<"Quat">>, {"m"}>>, <<"lerp", <<"Vec", "Vec", "S">>, {"m"}>>,
  <<"add_ew", <<"Vec", "Vec">>, {"m", "as"}>>, <<"mul_ew", <<"Vec", "Vec">>, {"m", "as"}>>, <<"sub_ew", <<"Vec", "S">>, {"m", "as"}>>,
  <<"diagonal", <<"Mat">>, {"m"}>>, <<"trace", <<"Mat">>, {"m"}>>, <<"mag2", <<"Vec">>, {"m"}>>, <<"det", <<"Mat">>, {"m"}>>,
  <<"iter_sum3", <<"Vec", "Vec", "Vec">>, {"v", "r"}>>,
  \* points: an affine space over the vectors                                                            (C12)
  <<"add", <<"Pt", "Vec">>, F4A>>, <<"sub", <<"Pt", "Vec">>, F4A>>, <<"sub", <<"Pt", "Pt">>, F4>>, <<"mul_s", <<"Pt", "S">>, F2A>>,
  <<"to_vec", <<"Pt">>, {"m"}>>, <<"from_vec", <<"Vec">>, {"m"}>>, <<"midpoint", <<"Pt", "Pt">>, {"m"}>>, <<"dot", <<"Pt", "Vec">>, {"m"}>>,
  <<"distance2", <<"Pt", "Pt">>, {"m"}>>, <<"add_ew", <<"Pt", "Pt">>, {"m", "as"}>>,
  \* a 3x3 matrix acting as a transform of points and vectors; rotation of a point by a quaternion           (C01, C08, C05)
  <<"transform_point", <<"Mat", "Pt">>, {"m"}>>, <<"transform_vector", <<"Mat", "Vec">>, {"m"}>>, <<"rotate_point", <<"Quat", "Pt">>, {"m"}>>,
  <<"rotate_vector", <<"Quat", "Vec">>, {"m"}>>,
  \* more of the matrix and quaternion algebra
  <<"mul_s", <<"Mat", "S">>, F2A>>, <<"neg", <<"Vec">>, {"v"}>>, <<"dot", <<"Quat", "Quat">>, {"m"}>>, <<"mag2", <<"Quat">>, {"m"}>>,
  <<"sum", <<"Vec">>, {"m"}>>, <<"product", <<"Vec">>, {"m"}>>, <<"distance2", <<"Vec", "Vec">>, {"m"}>>, <<"sub_ew", <<"Vec", "Vec">>, {"m", "as"}>> }

\* ---- magnitudes
RECURSIVE MaxOf(_)
MaxOf(s) == IF s = <<>> THEN 0 ELSE LET m == MaxOf(Tail(s)) h == Head(s) IN IF h > m THEN h ELSE m
MagR(q) == IF Abs(q[1]) > q[2] THEN Abs(q[1]) ELSE q[2]
MagV(v) == IF v.t = "Mat" THEN MaxOf([c \in 1..Len(v.c) |-> MaxOf([r \in 1..Len(v.c[c]) |-> MagR(v.c[c][r])])])
           ELSE MaxOf([i \in 1..Len(v.c) |-> MagR(v.c[i])])

\* the value the contracts prescribe for a functional op
FnOf(op, a) == IF op = "iter_sum3" THEN LinFn("iter_sum", "Q", <<Tv("Vector3")>> \o a)
               ELSE LET e0 == ViewFn(op, "Q", a) IN IF e0 # Undef THEN e0
               ELSE LET e1 == LinFn(op, "Q", a) IN IF e1 # Undef THEN e1 ELSE GeoFn(op, "Q", a)
ArgVals(as) == [i \in 1..Len(as) |-> reg[as[i]]]
ArgTuples(n) == IF n = 1 THEN {<<a>> : a \in RegId} ELSE IF n = 2 THEN {<<a, b>> : a \in RegId, b \in RegId}
                ELSE {<<a, b, c>> : a \in RegId, b \in RegId, c \in RegId}

Init == reg = [i \in RegId |-> Nil] /\ steps = 0 /\ init = reg /\ hist = <<>>
Load(d, v) == /\ steps = 0 /\ reg[d] = Nil
              /\ reg' = [reg EXCEPT ![d] = v] /\ init' = [init EXCEPT ![d] = v] /\ UNCHANGED <<steps, hist>>
Call(e, f, as, d) ==
  /\ steps < MaxSteps /\ \A i \in RegId : reg[i] # Nil
  /\ Tags(ArgVals(as)) = e[2] /\ f \in e[3]
  /\ IF e[1] = "div_s" THEN Sc(ArgVals(as), 2) # Zero ELSE TRUE        \* (IF, not \/: TLC explores both sides of a disjunction in an action)
  /\ LET r == FnOf(e[1], ArgVals(as)) IN
     /\ r # Undef /\ MagV(r) <= MaxMag
     /\ reg' = [reg EXCEPT ![d] = r]
  /\ steps' = steps + 1 /\ UNCHANGED init
  /\ hist' = Append(hist, [op |-> IF e[1] = "iter_sum3" THEN "iter_sum" ELSE e[1], f |-> f, a |-> as, d |-> d, e |-> e[1]])
Next == \/ \E d \in RegId, v \in SeedVals : Load(d, v)
        \/ \E e \in OpTable, d \in RegId : \E as \in ArgTuples(Len(e[2])) : \E f \in e[3] : Call(e, f, as, d)
Spec == Init /\ [][Next]_vars

\* ---- invariants of the machine
WellFormedScalar(q) == IsRat(q) /\ Gcd(Abs(q[1]), q[2]) = 1
TypeOK == \A i \in RegId : reg[i] = Nil \/ (reg[i].t \in {"Vec", "Quat", "S", "Pt"} /\ \A j \in 1..Len(reg[i].c) : WellFormedScalar(reg[i].c[j]))
                                       \/ (reg[i].t = "Mat" /\ \A c \in 1..3 : \A r \in 1..3 : WellFormedScalar(reg[i].c[c][r]))
\* C17 on the machine: the value stored by the last call satisfies the contract under EVERY spelling of the operator
AllForms == {"vv", "rv", "vr", "rr", "as", "m", "v", "r", "free"}
\* (the stored value is compared with what the contract prescribes for the arguments as they were before the call:
\*  recomputed from `init` and `hist` by replaying the program)
RECURSIVE Replay(_, _)
Replay(r0, h) == IF h = <<>> THEN r0
                 ELSE LET c == Head(h)  a == [i \in 1..Len(c.a) |-> r0[c.a[i]]] IN
                      Replay([r0 EXCEPT ![c.d] = FnOf(c.e, a)], Tail(h))
Deterministic == steps > 0 => Replay(init, hist) = reg          \* the program, not the forms it is spelled with, determines the state
\* one complete walk = one program for the real crate; the padding registers are Nil
Program == [sc |-> <<"Q", "f64">>, regs |-> [i \in 1..20 |-> IF i <= NR THEN init[i] ELSE Nil],
            calls |-> [i \in 1..Len(hist) |-> [op |-> hist[i].op, f |-> hist[i].f,
                                              a |-> IF hist[i].e = "iter_sum3" THEN <<NR + 1>> \o hist[i].a ELSE hist[i].a, d |-> hist[i].d]]]
ProgramT == [Program EXCEPT !.regs = [i \in 1..20 |-> IF i = NR + 1 THEN Tv("Vector3") ELSE Program.regs[i]]]
Emit == steps = MaxSteps => PrintT(<<"REPLAY", ToJson(ProgramT)>>)
=============================================================================
