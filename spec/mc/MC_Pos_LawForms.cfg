SPECIFICATION Spec
INVARIANTS LawForms
CHECK_DEADLOCK FALSE
