SPECIFICATION Spec
CONSTANTS QUICK = FALSE
INVARIANTS LawConcat LawInverse LawMatrix
CHECK_DEADLOCK FALSE
