SPECIFICATION Spec
CONSTANTS QUICK = TRUE
INVARIANTS LawLook
CHECK_DEADLOCK FALSE
