SPECIFICATION Spec
CONSTANTS QUICK = TRUE
INVARIANTS LawAlgebra LawRotation
CHECK_DEADLOCK FALSE
