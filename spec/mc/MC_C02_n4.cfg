SPECIFICATION Spec
CONSTANTS N = 4
 QUICK = TRUE
INVARIANTS LawDet ImplMeetsContract LawTranspose LawSwaps LawPanics
CHECK_DEADLOCK FALSE
