------------------------------- MODULE Gen_C16 -------------------------------
(* Pipeline A for C16: TLC enumerates every (type, view, index) combination  *)
(* of the position model and every one of the 550 swizzle words, and emits   *)
(* one program per combination; the programs are executed in the real crate  *)
(* at eight element types and the recorded calls validated against ApiMisc.  *)
(* The view tables below are the model's statement of which views exist.     *)
EXTENDS Api, Json
VARIABLES prog, phase
vars == <<prog, phase>>

Types == {"Vector1", "Vector2", "Vector3", "Vector4", "Point1", "Point2", "Point3", "Matrix2", "Matrix3", "Matrix4", "Quaternion"}
IsMat(ty) == ty \in {"Matrix2", "Matrix3", "Matrix4"}
NC(ty) == CASE ty \in {"Vector1", "Point1"} -> 1 [] ty \in {"Vector2", "Point2"} -> 2 [] ty \in {"Vector3", "Point3"} -> 3
            [] ty \in {"Vector4", "Matrix2", "Quaternion"} -> 4 [] ty = "Matrix3" -> 9 [] ty = "Matrix4" -> 16
ReadViews(ty) == IF IsMat(ty) THEN {"fields", "index", "array_into", "array_ref", "flat_ref", "ptr", "conv", "mint"}
                 ELSE {"fields", "index", "array_into", "array_ref", "tuple_into", "tuple_ref", "range_full", "range"}
                      \cup (IF ty \in {"Vector1", "Point1"} THEN {} ELSE {"mint", "range_to_from"})
                      \cup (IF ty = "Quaternion" THEN {} ELSE {"ptr"})
                      \cup (IF ty \in {"Vector1", "Point1", "Quaternion"} THEN {} ELSE {"conv"})
FromViews(ty) == IF IsMat(ty) THEN {"array", "array_ref", "array_mut", "flat_ref", "flat_mut", "mint"}
                 ELSE {"array", "array_ref", "array_mut", "tuple", "tuple_ref", "tuple_mut"}
                      \cup (IF ty = "Quaternion" THEN {} ELSE {"new"}) \cup (IF ty \in {"Vector1", "Point1"} THEN {} ELSE {"mint"})
WriteViews(ty) == IF IsMat(ty) THEN {"index", "array_mut", "flat_mut", "col_mut", "from_flat_mut"}
                  ELSE IF ty = "Quaternion" THEN {"index", "array_mut", "tuple_mut", "range_mut", "fields"}
                  ELSE {"index", "array_mut", "tuple_mut", "range_mut", "ptr_mut", "fields", "from_array_mut"}
\* a value of the type with pairwise distinct components 11, 12, ...
Comps(ty) == [i \in 1..NC(ty) |-> R(10 + i)]
ValOf(ty) == FromCanon(TypeTag(ty), Comps(ty))
Nil == [t |-> "Nil", c |-> <<>>]
SCS == <<"Q", "f64", "f32", "i32", "u8", "i64", "u16", "isize">>
Call(op, f, a, d) == [op |-> op, f |-> f, a |-> a, d |-> d]
Prog(regs, calls) == [sc |-> SCS, regs |-> regs \o [i \in 1..(20 - Len(regs)) |-> Nil], calls |-> calls]
\* the Matrix trait (swap_*, replace_col, ...) exists for floating-point element types only
ProgF(regs, calls) == [Prog(regs, calls) EXCEPT !.sc = <<"Q", "f64", "f32">>]

Letters4 == <<"x", "y", "z", "w">>
Words(n, maxlen) == UNION {[1..len -> 1..n] : len \in 1..maxlen}
SwizzleTypes == {"Vector1", "Vector2", "Vector3", "Vector4", "Point1", "Point2", "Point3"}
MaxLen(ty) == IF ty \in {"Point1", "Point2", "Point3"} THEN 3 ELSE 4

Programs ==
     {Prog(<<ValOf(ty)>>, <<Call("view_read", v, <<1>>, 2)>>) : ty \in Types, v \in {"fields"}}     \* placeholder, extended below
ReadProgs(ty) == {Prog(<<ValOf(ty)>>, <<Call("view_read", v, <<1>>, 2)>>) : v \in ReadViews(ty)}
FromProgs(ty) == {Prog(<<Tv(ty), Tv(v)>> \o [i \in 1..NC(ty) |-> Sv(Comps(ty)[i])],
                       <<Call("view_from", "m", [i \in 1..(NC(ty) + 2) |-> i], NC(ty) + 3), Call("view_read", "fields", <<NC(ty) + 3>>, 1)>>) : v \in FromViews(ty)}
WriteProgs(ty) == {Prog(<<ValOf(ty), Tv(v), Iv(i), Sv(R(77))>>,
                        <<Call("view_write", "m", <<1, 2, 3, 4>>, 5), Call("view_read", IF v = "fields" THEN "index" ELSE "fields", <<5>>, 6)>>)
                      : v \in WriteViews(ty), i \in 0..NC(ty)}
IndexProgs(ty) == IF IsMat(ty) THEN {Prog(<<ValOf(ty), Iv(i)>>, <<Call("col", "m", <<1, 2>>, 3)>>) : i \in -1..(ISqrt(NC(ty)) + 2)}
                  ELSE {Prog(<<ValOf(ty), Iv(i)>>, <<Call("index", "m", <<1, 2>>, 3)>>) : i \in -1..(NC(ty) + 2)}
                       \cup {Prog(<<ValOf(ty), Tv(kd), Iv(lo), Iv(hi)>>, <<Call("index_range", "m", <<1, 2, 3, 4>>, 5)>>)
                               : kd \in {"range", "to", "from"}, lo \in 0..(NC(ty) + 1), hi \in {0, NC(ty), NC(ty) + 1}}
\* matrices: swap_elements takes (column, row) pairs like m[c][r]; every pair of cells, every out-of-range index
MatSwapProgs(ty) == LET n == ISqrt(NC(ty)) IN
       {ProgF(<<ValOf(ty), Iv(ac), Iv(ar), Iv(bc), Iv(br)>>, <<Call("swap_elems", "m", <<1, 2, 3, 4, 5>>, 6)>>) : ac \in 0..n, ar \in 0..n, bc \in 0..n, br \in 0..n}
  \cup {ProgF(<<ValOf(ty), Iv(i), Iv(j)>>, <<Call(op, "m", <<1, 2, 3>>, 4)>>) : op \in {"swap_rows", "swap_cols"}, i \in 0..n, j \in 0..n}
SwapProgs(ty) == IF ty = "Quaternion" THEN {} ELSE IF IsMat(ty) THEN MatSwapProgs(ty)
                 ELSE {Prog(<<ValOf(ty), Iv(i), Iv(j)>>, <<Call("swap_elements", "m", <<1, 2, 3>>, 4)>>) : i \in 0..NC(ty), j \in 0..NC(ty)}
                      \cup {Prog(<<ValOf(ty), Sv(R(5)), FromCanon(TypeTag(ty), [i \in 1..NC(ty) |-> R(30 + 2 * i)])>>,
                                 <<Call("map", "m", <<1, 2>>, 4), Call("zip", "m", <<1, 3>>, 5)>>)}
SwizzleProgs(ty) == IF ty \notin SwizzleTypes THEN {}
                    ELSE {Prog(<<ValOf(ty), Tv(WordOf(w))>> \o [i \in 1..Len(w) |-> Iv(w[i])],
                               <<Call("swizzle", "m", [i \in 1..(Len(w) + 2) |-> i], Len(w) + 3)>>) : w \in Words(NC(ty), MaxLen(ty))}
MiscProgs == {Prog(<<ValOf("Vector4"), Iv(i)>>, <<Call("truncate_n", "m", <<1, 2>>, 3), Call("truncate", "m", <<1>>, 4)>>) : i \in -1..4}
             \cup {Prog(<<ValOf(ty), Sv(R(99))>>, <<Call("extend", "m", <<1, 2>>, 3)>>) : ty \in {"Vector2", "Vector3"}}
             \cup {Prog(<<ValOf("Vector3")>>, <<Call("truncate", "m", <<1>>, 2)>>)}
             \cup {Prog(<<Sv(R(11)), Sv(R(12)), Sv(R(13)), Sv(R(14))>>, <<Call("quat_new", "m", <<1, 2, 3, 4>>, 5), Call("view_read", "fields", <<5>>, 6),
                                                                    Call("view_read", "array_into", <<5>>, 7)>>)}
             \cup {Prog(<<Tv(ty), Sv(R(8))>>, <<Call("from_value", "m", <<1, 2>>, 3)>>) : ty \in Types \ {"Matrix2", "Matrix3", "Matrix4", "Quaternion"}}
Kinds == {"read", "from", "write", "index", "swap", "swizzle"}
ProgsOf(ty, kind) == CASE kind = "read" -> ReadProgs(ty) [] kind = "from" -> FromProgs(ty) [] kind = "write" -> WriteProgs(ty)
                       [] kind = "index" -> IndexProgs(ty) [] kind = "swap" -> SwapProgs(ty) [] kind = "swizzle" -> SwizzleProgs(ty)

Init == prog = Nil /\ phase = "pick"
Next == phase = "pick" /\ \/ \E ty \in Types, kind \in Kinds : \E p \in ProgsOf(ty, kind) : prog' = p /\ phase' = "emit"
                          \/ \E p \in MiscProgs : prog' = p /\ phase' = "emit"
Spec == Init /\ [][Next]_vars
Emit == phase = "emit" => PrintT(<<"REPLAY", ToJson(prog)>>)
\* the model's count of swizzle accessors: 340 + 120 + 30 + 4 + 39 + 14 + 3
ASSUME Cardinality(UNION {SwizzleProgs(ty) : ty \in SwizzleTypes}) = 550
=============================================================================
