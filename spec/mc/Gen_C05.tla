------------------------------- MODULE Gen_C05 -------------------------------
(* Pipeline A for C05: every rational unit quaternion with small numerators  *)
(* (the points of S^3 the specification reasons about) is sent through       *)
(* quaternion -> matrix -> quaternion in the real crate, so that all four    *)
(* cases of the matrix-to-quaternion conversion - including the ones with    *)
(* vanishing components and tied diagonal elements - are exercised.  Each    *)
(* program is tagged with the branch the transcription takes.                *)
EXTENDS Fn, Json
CONSTANTS K, MMAX
VARIABLES wx, prog, phase
vars == <<wx, prog, phase>>
Nil == [t |-> "Nil", c |-> <<>>]
Call(op, f, a, d) == [op |-> op, f |-> f, a |-> a, d |-> d]
UnitQ(w, x, y, z) == LET s == w * w + x * x + y * y + z * z  m == ISqrt(s) IN
                     IF s > 0 /\ m * m = s /\ m <= MMAX /\ Gcd(Gcd(Abs(w), Abs(x)), Gcd(Abs(y), Abs(z))) = 1
                     THEN <<Norm(w, m), Norm(x, m), Norm(y, m), Norm(z, m)>> ELSE <<>>
ProgOf(q) == [sc |-> <<"Q", "f64">>, tag |-> QuatBranch(QMat3(q)),
              regs |-> <<V("Quat", q)>> \o [i \in 1..19 |-> Nil],
              calls |-> <<Call("mat3_from_quat", "m", <<1>>, 2), Call("quat_from_mat3", "m", <<2>>, 3),
                          Call("basis3_from_quat", "from", <<1>>, 4), Call("quat_from_basis3", "m", <<4>>, 5)>>]
Init == wx = <<0, 0>> /\ prog = Nil /\ phase = "wx"
Next == \/ phase = "wx" /\ \E w \in -K..K, x \in -K..K : wx' = <<w, x>> /\ phase' = "yz" /\ UNCHANGED prog
        \/ phase = "yz" /\ \E y \in -K..K, z \in -K..K :
              /\ UnitQ(wx[1], wx[2], y, z) # <<>>
              /\ prog' = ProgOf(UnitQ(wx[1], wx[2], y, z)) /\ phase' = "emit" /\ UNCHANGED wx
Spec == Init /\ [][Next]_vars
Emit == phase = "emit" => PrintT(<<"REPLAY", ToJson(prog)>>)
\* design side: on every such quaternion the transcribed conversion returns q or -q and meets the contract
RoundTrip == phase = "emit" =>
     LET q == prog.regs[1].c  M == QMat3(q)  r == FnQuatFromMat3(M) IN
     /\ RIsSquare(QuatRadicand(M))
     /\ (r = q \/ r = VNeg(q))
     /\ GeoRel("quat_from_mat3", "Q", "m", <<V("Mat", M)>>, V("Quat", r))
     /\ FnMat3FromQuat(q) = M /\ IsRotation(M)
=============================================================================
