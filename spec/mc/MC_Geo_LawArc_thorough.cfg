SPECIFICATION Spec
CONSTANTS QUICK = FALSE
INVARIANTS LawArc
CHECK_DEADLOCK FALSE
