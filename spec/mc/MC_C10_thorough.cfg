SPECIFICATION Spec
CONSTANTS QUICK = FALSE
INVARIANTS LawOrtho LawFrustum LawPerspective LawPlanar
CHECK_DEADLOCK FALSE
