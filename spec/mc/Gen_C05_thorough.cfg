SPECIFICATION Spec
CONSTANTS K = 6
 MMAX = 9
INVARIANTS Emit RoundTrip
CHECK_DEADLOCK FALSE
