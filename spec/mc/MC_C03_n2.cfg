SPECIFICATION Spec
CONSTANTS N = 2
 QUICK = TRUE
INVARIANTS LawVectorSpace LawInner LawCross LawIntegerKind LawAffine
CHECK_DEADLOCK FALSE
