SPECIFICATION Spec
INVARIANTS ImplMeetsContract LawBisect LawArith
CHECK_DEADLOCK FALSE
