SPECIFICATION Spec
INVARIANTS LawViews
CHECK_DEADLOCK FALSE
