------------------------------- MODULE Gen_C10 -------------------------------
(* Pipeline A for C10: a parameter grid for the four projection constructors   *)
(* with windows that are not symmetric about the origin, and, for rejection,   *)
(* every tuple obtained from a valid one by violating exactly one              *)
(* precondition.  Both entry points (free function and struct conversion).     *)
EXTENDS Api, Json
VARIABLES prog, phase
vars == <<prog, phase>>
Nil == [t |-> "Nil", c |-> <<>>]
Call(op, f, a, d) == [op |-> op, f |-> f, a |-> a, d |-> d]
Prog(regs, calls) == [sc |-> <<"Q", "f64">>, regs |-> regs \o [i \in 1..(20 - Len(regs)) |-> Nil], calls |-> calls]
Forms == {"fn", "struct"}
S6(l, r, b, t, n, f) == <<Sv(l), Sv(r), Sv(b), Sv(t), Sv(n), Sv(f)>>
Lo == {<<-3, 2>>, R(1)}
Wd == {<<1, 2>>, R(3)}
Near == {<<1, 2>>, R(2)}
Boxes == {<<l, RAdd(l, w), b, RAdd(b, h), n, RAdd(n, d)>> : l \in Lo, w \in Wd, b \in Lo, h \in Wd, n \in Near, d \in Wd}
BoxProgs == {Prog(S6(x[1], x[2], x[3], x[4], x[5], x[6]) \o <<V("Pt", <<x[1], x[4], RNeg(x[6])>>)>>,
                  <<Call(op, fm, <<1, 2, 3, 4, 5, 6>>, 8), Call("transform_point", "m", <<8, 7>>, 9)>>) : x \in Boxes, op \in {"ortho", "frustum"}, fm \in Forms}
\* frustum rejection: swap exactly one ordered pair
Swap12(x, i) == [x EXCEPT ![i] = x[i + 1], ![i + 1] = x[i]]
BadFrustum == {Prog(S6(y[1], y[2], y[3], y[4], y[5], y[6]), <<Call("frustum", fm, <<1, 2, 3, 4, 5, 6>>, 8)>>)
                 : y \in {Swap12(x, i) : x \in Boxes, i \in {1, 3, 5}}, fm \in Forms}
Fovs == {<<0, 1, 2, 0>>, <<2, 1, -2, 0>>, <<-2, 1, 4, 0>>, <<4, 1, -4, 0>>}
BadFovs == {<<0, 1, 0, 0>>, <<2, 1, 0, 0>>, <<0, 1, -2, 0>>, <<3, 1, 0, 0>>, <<0, 1, 4, 0>>}
Asps == {<<1, 2>>, <<16, 9>>}
AngVals(g) == {V("Rad", g), V("Deg", g)}
PerspOK == {Prog(<<an, Sv(a), Sv(n), Sv(RAdd(n, d))>>, <<Call("perspective", fm, <<1, 2, 3, 4>>, 5), Call("to_perspective", "m", <<1, 2, 3, 4>>, 6)>>)
              : an \in UNION {AngVals(g) : g \in Fovs}, a \in Asps, n \in Near, d \in Wd, fm \in Forms}
PerspBadTuples == {<<g, <<4, 3>>, R(1), R(5)>> : g \in BadFovs}
                  \cup {<<<<0, 1, 2, 0>>, R(0), R(1), R(5)>>}
                  \cup {<<<<0, 1, 2, 0>>, <<4, 3>>, n, R(5)>> : n \in {R(0), R(-1)}}
                  \cup {<<<<0, 1, 2, 0>>, <<4, 3>>, R(1), f>> : f \in {R(0), R(-5), R(1)}}
PerspBad == UNION {{Prog(<<an, Sv(x[2]), Sv(x[3]), Sv(x[4])>>, <<Call("perspective", fm, <<1, 2, 3, 4>>, 5)>>) : an \in AngVals(x[1]), fm \in Forms} : x \in PerspBadTuples}
PlanarOK == {Prog(<<an, Sv(a), Sv(h), Sv(n), Sv(RAdd(n, d))>>, <<Call("planar", fm, <<1, 2, 3, 4, 5>>, 6)>>)
               : an \in UNION {AngVals(g) : g \in {<<0, 1, 2, 0>>, <<0, 1, 0, 0>>, <<2, 1, -2, 0>>}}, a \in Asps \cup {R(-2)}, h \in {<<1, 2>>, R(3)}, n \in Near, d \in Wd, fm \in Forms}
PlanarBadTuples == {<<<<2, 1, 0, 0>>, <<4, 3>>, R(2), R(1), R(5)>>, <<<<-2, 1, 0, 0>>, <<4, 3>>, R(2), R(1), R(5)>>,
                    <<<<0, 1, 2, 0>>, <<4, 3>>, R(-1), R(1), R(5)>>, <<<<0, 1, 2, 0>>, R(0), R(2), R(1), R(5)>>,
                    <<<<0, 1, 2, 0>>, <<4, 3>>, R(2), R(5), R(5)>>,
                    \* focal point -(h/2) cot(fovy/2) between the planes: fovy = -2 t1, tan(fovy/2) = -4/3, h = 8: focal = 3 in (1, 5)
                    <<<<0, 1, -2, 0>>, <<4, 3>>, R(8), R(1), R(5)>>, <<<<0, 1, -2, 0>>, <<4, 3>>, R(8), R(5), R(1)>>}
PlanarBad == UNION {{Prog(<<an, Sv(x[2]), Sv(x[3]), Sv(x[4]), Sv(x[5])>>, <<Call("planar", fm, <<1, 2, 3, 4, 5>>, 6)>>) : an \in AngVals(x[1]), fm \in Forms} : x \in PlanarBadTuples}
All == BoxProgs \cup BadFrustum \cup PerspOK \cup PerspBad \cup PlanarOK \cup PlanarBad
Init == prog = Nil /\ phase = "pick"
Next == phase = "pick" /\ \E p \in All : prog' = p /\ phase' = "emit"
Spec == Init /\ [][Next]_vars
Emit == phase = "emit" => PrintT(<<"REPLAY", ToJson(prog)>>)
=============================================================================
