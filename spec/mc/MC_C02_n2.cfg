SPECIFICATION Spec
CONSTANTS N = 2
 QUICK = TRUE
INVARIANTS LawDet ImplMeetsContract LawTranspose LawSwaps LawPanics
CHECK_DEADLOCK FALSE
