SPECIFICATION Spec
CONSTANTS N = 2
 QUICK = FALSE
INVARIANTS LawVectorSpace LawInner LawCross LawIntegerKind LawAffine
CHECK_DEADLOCK FALSE
