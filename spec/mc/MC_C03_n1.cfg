SPECIFICATION Spec
CONSTANTS N = 1
 QUICK = TRUE
INVARIANTS LawVectorSpace LawInner LawCross LawIntegerKind LawAffine
CHECK_DEADLOCK FALSE
