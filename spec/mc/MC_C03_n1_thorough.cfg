SPECIFICATION Spec
CONSTANTS N = 1
 QUICK = FALSE
INVARIANTS LawVectorSpace LawInner LawCross LawIntegerKind LawAffine
CHECK_DEADLOCK FALSE
