SPECIFICATION Spec
CONSTANTS QUICK = FALSE
INVARIANTS LawMetric
CHECK_DEADLOCK FALSE
