SPECIFICATION Spec
CONSTANTS QUICK = TRUE
INVARIANTS LawAxisAngle LawEuler
CHECK_DEADLOCK FALSE
