SPECIFICATION Spec
CONSTANTS N = 4
 QUICK = FALSE
INVARIANTS LawVectorSpace LawInner LawCross LawIntegerKind LawAffine
CHECK_DEADLOCK FALSE
