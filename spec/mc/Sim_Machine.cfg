SPECIFICATION Spec
CONSTANTS NR = 5
 MaxSteps = 6
 MaxMag = 3000
INVARIANTS TypeOK Deterministic Emit
CHECK_DEADLOCK FALSE
