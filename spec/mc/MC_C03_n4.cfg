SPECIFICATION Spec
CONSTANTS N = 4
 QUICK = TRUE
INVARIANTS LawVectorSpace LawInner LawCross LawIntegerKind LawAffine
CHECK_DEADLOCK FALSE
