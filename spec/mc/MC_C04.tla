------------------------------- MODULE MC_C04 -------------------------------
(* Design check for C04: Hamilton's algebra and unit quaternions as rotations *)
EXTENDS Fn
CONSTANTS QUICK
VARIABLES p, q, r, v, phase
vars == <<p, q, r, v, phase>>
E == IF QUICK THEN {R(-1), R(0), R(2)} ELSE {R(-1), R(0), R(1), R(2)}
Quats == {<<a, b, c, d>> : a \in E, b \in E, c \in E, d \in E}
RList == {<<R(1), R(-2), <<1, 2>>, R(3)>>, <<R(0), R(1), R(0), R(0)>>} \cup (IF QUICK THEN {} ELSE {<<<<2, 3>>, R(1), R(-1), <<1, 4>>>>, <<R(2), R(0), R(0), R(0)>>})
VList == {<<R(1), R(-2), R(3)>>, <<<<1, 2>>, R(0), R(-1)>>} \cup (IF QUICK THEN {} ELSE {<<R(0), R(0), R(1)>>, <<R(2), R(2), R(-1)>>})
\* exactly unit quaternions: rational points of the 3-sphere
Units == {<<<<1, 2>>, <<1, 2>>, <<1, 2>>, <<-1, 2>>>>, <<<<2, 3>>, <<-1, 3>>, <<0, 1>>, <<2, 3>>>>, <<<<1, 5>>, <<2, 5>>, <<-2, 5>>, <<4, 5>>>>,
          <<<<0, 1>>, <<3, 5>>, <<4, 5>>, <<0, 1>>>>, <<<<1, 6>>, <<1, 6>>, <<1, 2>>, <<-5, 6>>>>, <<R(1), R(0), R(0), R(0)>>}
Init == p = <<>> /\ q = <<>> /\ r = <<>> /\ v = <<>> /\ phase = "p"
Next == \/ phase = "p" /\ \E x \in Quats \cup Units : p' = x /\ phase' = "q" /\ UNCHANGED <<q, r, v>>
        \/ phase = "q" /\ \E x \in Quats \cup Units : q' = x /\ phase' = "rv" /\ UNCHANGED <<p, r, v>>
        \/ phase = "rv" /\ \E x \in RList, y \in VList : r' = x /\ v' = y /\ phase' = "done" /\ UNCHANGED <<p, q>>
Spec == Init /\ [][Next]_vars
Done == phase = "done"
Qv(x) == V("Quat", x)
LawAlgebra == Done =>
  /\ QMul(QMul(p, q), r) = QMul(p, QMul(q, r))
  /\ QMul(p, VAdd(q, r)) = VAdd(QMul(p, q), QMul(p, r)) /\ QMul(VAdd(p, q), r) = VAdd(QMul(p, r), QMul(q, r))
  /\ QMul(QOne, p) = p /\ QMul(p, QOne) = p
  /\ QConj(QMul(p, q)) = QMul(QConj(q), QConj(p))
  /\ Mag2(QMul(p, q)) = RMul(Mag2(p), Mag2(q))
  /\ (p # QZero => QMul(p, FnQInvert(p)) = QOne /\ QMul(FnQInvert(p), p) = QOne
                   /\ LinFn("rot_invert", "Q", <<Qv(p)>>).c = FnQInvert(p))
  /\ LinFn("mul", "Q", <<Qv(p), Qv(q)>>).c = QMul(p, q)
  /\ LinFn("conjugate", "Q", <<Qv(p)>>).c = QConj(p)
\* q*v = v + 2 qv x (qv x v + s v); for unit q it is the vector part of q (0,v) conj(q), an isometry, and a homomorphism
LawRotation == Done =>
  /\ FnQRot(p, v) = QRot(p, v)
  /\ LinFn("mul", "Q", <<Qv(p), V("Vec", v)>>).c = VAdd(v, VScale(Cross(QVec(p), VAdd(Cross(QVec(p), v), VScale(v, p[1]))), Two))
  /\ (p \in Units => /\ QVec(QMul(QMul(p, <<Zero>> \o v), QConj(p))) = QRot(p, v)
                     /\ Mag2(QRot(p, v)) = Mag2(v)
                     /\ QMat3(p) = FnMat3FromQuat(p) /\ MulMV(QMat3(p), v) = QRot(p, v))
  /\ ((p \in Units /\ q \in Units) => QRot(QMul(p, q), v) = QRot(p, QRot(q, v)))
=============================================================================
