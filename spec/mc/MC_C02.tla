------------------------------- MODULE MC_C02 -------------------------------
(* Design check for C02: inverse, determinant, transpose, swaps.            *)
(* A is enumerated column by column from a pool (repetitions give exactly   *)
(* singular matrices; the pool contains tiny entries for tiny determinants),*)
(* B comes from a list of dense matrices.                                   *)
EXTENDS Fn
CONSTANTS N, QUICK
VARIABLES A, B, phase
vars == <<A, B, phase>>
Pool2 == IF QUICK THEN {<<R(a), R(b)>> : a \in {-2, 0, 1}, b \in {-1, 0, 3}} \cup {<<<<1, 1000>>, R(1)>>}
         ELSE {<<R(a), R(b)>> : a \in -2..2, b \in -2..2} \cup {<<<<1, 1000>>, R(1)>>, <<<<1, 3>>, <<-2, 5>>>>}
Pool3 == {<<R(1), R(0), R(0)>>, <<R(0), R(0), R(1)>>, <<R(2), R(-1), R(3)>>, <<<<1, 2>>, R(4), R(-2)>>, <<R(-3), <<2, 3>>, R(1)>>, <<<<1, 1000>>, R(0), R(1)>>}
         \cup (IF QUICK THEN {} ELSE {<<R(0), R(0), R(0)>>, <<R(0), R(1), R(0)>>, <<R(4), R(-2), R(6)>>, <<R(1), R(1), R(1)>>})
Pool4 == {<<R(1), R(0), R(0), R(0)>>, <<R(2), R(-1), R(3), R(1)>>, <<<<1, 2>>, R(4), R(-2), R(0)>>, <<R(-3), <<2, 3>>, R(1), R(-1)>>}
         \cup (IF QUICK THEN {} ELSE {<<R(0), R(1), R(0), R(0)>>, <<R(0), R(0), R(1), R(1)>>, <<<<1, 100>>, R(0), R(0), R(1)>>, <<R(1), R(-2), R(2), <<3, 2>>>>})
Pool == CASE N = 2 -> Pool2 [] N = 3 -> Pool3 [] N = 4 -> Pool4
Dense(n, s) == [c \in 1..n |-> [r \in 1..n |-> Norm(((c * 7 + r * 3 + s * 5) % 11) - 5, 1 + ((c + 2 * r + s) % 2))]]
BList == {Dense(N, 1), Dense(N, 2)} \cup (IF QUICK THEN {} ELSE {Dense(N, 3), Id(N), MZero(N)})
Init == A = <<>> /\ B = <<>> /\ phase = "A"
Next == \/ phase = "A" /\ \E col \in Pool : A' = Append(A, col) /\ phase' = (IF Len(A) + 1 = N THEN "B" ELSE "A") /\ UNCHANGED B
        \/ phase = "B" /\ \E b \in BList : B' = b /\ phase' = "done" /\ UNCHANGED A
Spec == Init /\ [][Next]_vars
Done == phase = "done"
Mat(M) == V("Mat", M)

\* the code's determinant (2x2 formula, 3x3 expansion, lane-wise 4x4) equals the Leibniz expansion
LawDet == Done => /\ FnDet(A) = Det(A)
                  /\ Det(MulMM(A, B)) = RMul(Det(A), Det(B))
                  /\ Det(Transpose(A)) = Det(A)
\* the code's inverse (adjugate / cross products / cofactors through truncate_n) meets the contract:
\* None exactly when det = 0, else a two-sided inverse
ImplMeetsContract == Done => /\ InvertRel(A, FnInvert(A))
                             /\ (Det(A) = Zero) = (FnInvert(A).t = "None")
                             /\ LinRel("invert", "Q", <<Mat(A)>>, FnInvert(A))
                             /\ LinRel("inverse_transform_m", "Q", <<Mat(A)>>, FnInvert(A))
LawTranspose == Done => /\ Transpose(Transpose(A)) = A
                        /\ Transpose(MulMM(A, B)) = MulMM(Transpose(B), Transpose(A))
                        /\ FnTransposeSelf(A) = Transpose(A)
                        /\ LinFn("transpose_self", "Q", <<Mat(A)>>) = LinFn("transpose", "Q", <<Mat(A)>>)
\* swaps exchange exactly the named rows / columns / elements and nothing else; replace_col installs and returns
LawSwaps == Done => \A i, j \in 0..(N - 1) :
     LET sr == LinFn("swap_rows", "Q", <<Mat(A), Iv(i), Iv(j)>>).c
         sc == LinFn("swap_cols", "Q", <<Mat(A), Iv(i), Iv(j)>>).c
         se == LinFn("swap_elems", "Q", <<Mat(A), Iv(i), Iv(j), Iv(j), Iv(i)>>).c
         rc == LinFn("replace_col", "Q", <<Mat(A), Iv(i), V("Vec", B[1])>>) IN
     /\ \A c \in 1..N : \A r \in 1..N : sr[c][r] = A[c][IF r = i + 1 THEN j + 1 ELSE IF r = j + 1 THEN i + 1 ELSE r]
     /\ \A c \in 1..N : sc[c] = A[IF c = i + 1 THEN j + 1 ELSE IF c = j + 1 THEN i + 1 ELSE c]
     /\ \A c \in 1..N : \A r \in 1..N : se[c][r] = (IF c = i + 1 /\ r = j + 1 THEN A[j + 1][i + 1] ELSE IF c = j + 1 /\ r = i + 1 THEN A[i + 1][j + 1] ELSE A[c][r])
     /\ rc.c[2].c = A[i + 1] /\ rc.c[1].c[i + 1] = B[1] /\ \A c \in 1..N : c # i + 1 => rc.c[1].c[c] = A[c]
\* out-of-range indices panic
LawPanics == Done => /\ LinFn("swap_rows", "Q", <<Mat(A), Iv(0), Iv(N)>>) = PanicV
                     /\ LinFn("swap_cols", "Q", <<Mat(A), Iv(N), Iv(0)>>) = PanicV
                     /\ LinFn("row", "Q", <<Mat(A), Iv(N)>>) = PanicV
                     /\ LinFn("col", "Q", <<Mat(A), Iv(-1)>>) = PanicV
=============================================================================
