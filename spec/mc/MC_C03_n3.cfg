SPECIFICATION Spec
CONSTANTS N = 3
 QUICK = TRUE
INVARIANTS LawVectorSpace LawInner LawCross LawIntegerKind LawAffine
CHECK_DEADLOCK FALSE
