------------------------------- MODULE MC_C10 -------------------------------
(* Design check for C10: the four projection matrices the code builds meet   *)
(* the geometric contracts (corners of the view volume onto the clip cube,   *)
(* focal point, rejection of invalid parameters) over a rational grid with   *)
(* windows that are NOT symmetric about the origin.                          *)
EXTENDS Fn
CONSTANTS QUICK
VARIABLES l, r, b, t, n, f, g, asp, h, phase
vars == <<l, r, b, t, n, f, g, asp, h, phase>>
\* thorough: 16 * 9 * 20 * 128 = 368 640 parameter tuples
Vals == IF QUICK THEN {<<-1, 2>>, R(1), R(3)} ELSE {R(-2), <<-1, 2>>, R(1), R(5)}
Pos  == IF QUICK THEN {<<1, 2>>, R(2)} ELSE {<<1, 2>>, R(1), R(3)}
BVals == IF QUICK THEN {<<-1, 2>>, R(3)} ELSE {<<-1, 2>>, R(1), R(3)}
FovsAll == {<<0, 1, 2, 0>>, <<2, 1, -2, 0>>, <<-2, 1, 4, 0>>, <<0, 1, 0, 0>>, <<2, 1, 0, 0>>, <<0, 1, -2, 0>>, <<4, 1, -4, 0>>, <<-2, 1, 0, 0>>}
Fovs == IF QUICK THEN {<<0, 1, 2, 0>>, <<-2, 1, 4, 0>>, <<0, 1, 0, 0>>, <<2, 1, 0, 0>>, <<0, 1, -2, 0>>} ELSE FovsAll
Asps == IF QUICK THEN {<<16, 9>>, R(0), R(-2)} ELSE {<<1, 2>>, <<16, 9>>, R(0), R(-2)}
Init == l = Zero /\ r = One /\ b = Zero /\ t = One /\ n = One /\ f = Two /\ g = AZero /\ asp = One /\ h = One /\ phase = "lr"
Next == \/ phase = "lr" /\ \E x \in Vals, y \in Vals : l' = x /\ r' = y /\ phase' = "bt" /\ UNCHANGED <<b, t, n, f, g, asp, h>>
        \/ phase = "bt" /\ \E x \in BVals, y \in BVals : b' = x /\ t' = y /\ phase' = "nf" /\ UNCHANGED <<l, r, n, f, g, asp, h>>
        \/ phase = "nf" /\ \E x \in Pos \cup {R(0), R(-1)}, y \in Pos \cup {R(-1)} : n' = x /\ f' = y /\ phase' = "fov" /\ UNCHANGED <<l, r, b, t, g, asp, h>>
        \/ phase = "fov" /\ \E x \in Fovs, y \in Asps, z \in (IF QUICK THEN {<<1, 2>>, R(2), R(-1)} ELSE {<<1, 2>>, R(3), R(-1), R(0)}) : g' = x /\ asp' = y /\ h' = z /\ phase' = "done" /\ UNCHANGED <<l, r, b, t, n, f>>
Spec == Init /\ [][Next]_vars
Done == phase = "done"
\* ortho: defined on non-degenerate boxes
LawOrtho == (Done /\ l # r /\ b # t /\ n # f) => OrthoRel(FnOrtho(l, r, b, t, n, f), l, r, b, t, n, f)
\* frustum: panics exactly when left > right, bottom > top or near > far; geometry on the proper domain
LawFrustum == Done =>
  /\ (RGt(l, r) \/ RGt(b, t) \/ RGt(n, f)) = (FnFrustum(l, r, b, t, n, f) = PanicV)
  /\ (RLt(l, r) /\ RLt(b, t) /\ RLt(n, f) /\ RGt(n, Zero)) => FrustumRel(l, r, b, t, n, f, FnFrustum(l, r, b, t, n, f))
\* perspective = frustum of the symmetric window; rejected outside its domain
LawPerspective == Done =>
  /\ PerspInvalid(g, asp, n, f) = (FnPerspective(g, asp, n, f) = PanicV)
  /\ PerspectiveRel(g, asp, n, f, FnPerspective(g, asp, n, f)) \/ (~PerspInvalid(g, asp, n, f) /\ (RLt(asp, Zero) \/ RGt(n, f)))
  /\ (~PerspInvalid(g, asp, n, f) /\ RGt(asp, Zero) /\ RLt(n, f)) =>
        LET w == ToPerspective(g, asp, n, f).c IN FnPerspective(g, asp, n, f) = FnFrustum(w[1], w[2], w[3], w[4], w[5], w[6])
LawPlanar == (Done /\ h # Zero) =>
  /\ PlanarInvalid(g, asp, h, n, f) = (FnPlanar(g, asp, h, n, f) = PanicV)
  /\ PlanarRel(g, asp, h, n, f, FnPlanar(g, asp, h, n, f))
=============================================================================
