SPECIFICATION Spec
CONSTANTS N = 3
 QUICK = FALSE
INVARIANTS LawElements LawProducts LawAccessors LawEmbed LawConstructors LawRing
CHECK_DEADLOCK FALSE
