SPECIFICATION Spec
INVARIANTS LawApprox
CHECK_DEADLOCK FALSE
