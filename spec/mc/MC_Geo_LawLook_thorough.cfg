SPECIFICATION Spec
CONSTANTS QUICK = FALSE
INVARIANTS LawLook
CHECK_DEADLOCK FALSE
