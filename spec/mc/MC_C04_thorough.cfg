SPECIFICATION Spec
CONSTANTS QUICK = FALSE
INVARIANTS LawAlgebra LawRotation
CHECK_DEADLOCK FALSE
