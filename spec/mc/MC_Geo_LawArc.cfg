SPECIFICATION Spec
CONSTANTS QUICK = TRUE
INVARIANTS LawArc
CHECK_DEADLOCK FALSE
