------------------------------- MODULE MC_C03 -------------------------------
(* Design check for C03 (inner-product space, cross / perp-dot) and C12     *)
(* (points as an affine space, homogeneous coordinates, midpoint, centroid).*)
(* u, v, w range over all vectors of dimension N with entries in E; the     *)
(* laws are checked for the field kind and, where stated, the integer kind. *)
EXTENDS Fn
CONSTANTS N, QUICK
VARIABLES u, v, w, a, b, phase
vars == <<u, v, w, a, b, phase>>
\* thorough: seven entry values in dimensions 1 and 2, five in dimensions 3 and 4 (the state count is |Vecs|^2 * |WVecs| * |Scal|^2)
E == IF QUICK THEN {R(-2), R(0), R(1), <<3, 2>>}
     ELSE IF N <= 2 THEN {R(-2), R(-1), R(0), R(1), R(2), <<3, 2>>, <<-1, 3>>} ELSE {R(-2), R(0), R(1), <<3, 2>>, <<-1, 3>>}
Vecs == CASE N = 1 -> {<<x>> : x \in E} [] N = 2 -> {<<x, y>> : x \in E, y \in E}
          [] N = 3 -> {<<x, y, z>> : x \in E, y \in E, z \in E}
          [] N = 4 -> {<<x, y, z, t>> : x \in E, y \in E, z \in {R(0), R(1)}, t \in {R(-2), <<3, 2>>}}
WVecs == IF QUICK /\ N >= 3 THEN {[i \in 1..N |-> Norm(2 * i - 3, i)], [i \in 1..N |-> R(i % 2)]}
         ELSE IF QUICK \/ N = 1 THEN Vecs
         ELSE {[i \in 1..N |-> Norm(2 * i - 3, i)], [i \in 1..N |-> R(i % 2)], [i \in 1..N |-> Zero], [i \in 1..N |-> R(3 - i)],
               [i \in 1..N |-> Norm(-1, i + 1)], [i \in 1..N |-> IF i = N THEN One ELSE Zero]}
Scal == {R(2), <<-1, 2>>, R(0)} \cup (IF QUICK \/ N >= 3 THEN {} ELSE {R(-3), <<2, 3>>})
Init == u = <<>> /\ v = <<>> /\ w = <<>> /\ a = Zero /\ b = Zero /\ phase = "u"
Next == \/ phase = "u" /\ \E x \in Vecs : u' = x /\ phase' = "v" /\ UNCHANGED <<v, w, a, b>>
        \/ phase = "v" /\ \E x \in Vecs : v' = x /\ phase' = "w" /\ UNCHANGED <<u, w, a, b>>
        \/ phase = "w" /\ \E x \in WVecs, s \in Scal, t \in Scal : w' = x /\ a' = s /\ b' = t /\ phase' = "done" /\ UNCHANGED <<u, v>>
Spec == Init /\ [][Next]_vars
Done == phase = "done"
Vec(x) == V("Vec", x)
Pt(x) == V("Pt", x)
F(op, args) == LinFn(op, "Q", args)
\* component-wise operations, zero as additive identity
LawVectorSpace == Done =>
  /\ F("add", <<Vec(u), Vec(v)>>).c = [i \in 1..N |-> RAdd(u[i], v[i])]
  /\ F("sub", <<Vec(u), Vec(v)>>).c = [i \in 1..N |-> RSub(u[i], v[i])]
  /\ F("neg", <<Vec(u)>>).c = [i \in 1..N |-> RNeg(u[i])]
  /\ F("mul_s", <<Vec(u), Sv(a)>>).c = [i \in 1..N |-> RMul(u[i], a)]
  /\ (a # Zero => F("div_s", <<Vec(u), Sv(a)>>).c = [i \in 1..N |-> RDiv(u[i], a)])
  /\ F("add", <<Vec(u), F("zero", <<Tv("Vector" \o ToString(N))>>)>>).c = u
  /\ VAdd(VAdd(u, v), w) = VAdd(u, VAdd(v, w)) /\ VAdd(u, v) = VAdd(v, u)
  /\ VScale(VAdd(u, v), a) = VAdd(VScale(u, a), VScale(v, a))
  /\ F("mul_ew", <<Vec(u), Vec(v)>>).c = [i \in 1..N |-> RMul(u[i], v[i])]
  /\ F("add_ew", <<Vec(u), Sv(a)>>).c = [i \in 1..N |-> RAdd(u[i], a)]
  /\ F("sum", <<Vec(u)>>).c[1] = SumSeq(u) /\ F("product", <<Vec(u)>>).c[1] = ProdSeq(u)
\* dot is symmetric and bilinear, magnitude2 = dot with itself
LawInner == Done =>
  /\ Dot(u, v) = Dot(v, u)
  /\ Dot(VAdd(VScale(u, a), VScale(w, b)), v) = RAdd(RMul(a, Dot(u, v)), RMul(b, Dot(w, v)))
  /\ F("mag2", <<Vec(u)>>).c[1] = Dot(u, u) /\ RGe(Dot(u, u), Zero)
  /\ F("dot", <<Vec(u), Vec(v)>>).c[1] = SumSeq([i \in 1..N |-> RMul(u[i], v[i])])
\* 3-D cross product: antisymmetric, orthogonal to both, Lagrange identity, triple product expansion; 2-D perp-dot
LawCross == Done =>
  /\ (N = 3 => /\ Cross(u, v) = VNeg(Cross(v, u))
               /\ Dot(Cross(u, v), u) = Zero /\ Dot(Cross(u, v), v) = Zero
               /\ Mag2(Cross(u, v)) = RSub(RMul(Mag2(u), Mag2(v)), RSq(Dot(u, v)))
               /\ Cross(u, Cross(v, w)) = VSub(VScale(v, Dot(u, w)), VScale(w, Dot(u, v)))
               /\ F("cross", <<Vec(u), Vec(v)>>).c = Cross(u, v))
  /\ (N = 2 => F("perp_dot", <<Vec(u), Vec(v)>>).c[1] = RSub(RMul(u[1], v[2]), RMul(u[2], v[1])))
\* the integer scalar kinds: same identities, with truncating division and remainder
IsIntVec(x) == \A i \in 1..Len(x) : RIsInt(x[i])
LawIntegerKind == (Done /\ IsIntVec(u) /\ IsIntVec(v) /\ RIsInt(a) /\ a # Zero) =>
  /\ LinFn("div_s", "i32", <<Vec(u), Sv(a)>>).c = [i \in 1..N |-> R(TruncDiv(u[i][1], a[1]))]
  /\ LinFn("rem_s", "i32", <<Vec(u), Sv(a)>>).c = [i \in 1..N |-> R(TruncRem(u[i][1], a[1]))]
  /\ \A i \in 1..N : u[i] = RAdd(RMul(R(TruncDiv(u[i][1], a[1])), a), R(TruncRem(u[i][1], a[1])))
  /\ LinFn("dot", "i32", <<Vec(u), Vec(v)>>) = LinFn("dot", "Q", <<Vec(u), Vec(v)>>)
\* C12: points form an affine space over vectors
LawAffine == (Done /\ N <= 3) =>
  LET p == u  q == v IN
  /\ F("sub", <<F("add", <<Pt(p), Vec(w)>>), Pt(p)>>) = Vec(w)
  /\ F("add", <<Pt(p), F("sub", <<Pt(q), Pt(p)>>)>>) = Pt(q)
  /\ F("add", <<F("add", <<Pt(p), Vec(v)>>), Vec(w)>>) = F("add", <<Pt(p), Vec(VAdd(v, w))>>)
  /\ F("sub", <<Pt(p), Vec(w)>>) = F("add", <<Pt(p), Vec(VNeg(w))>>)
  /\ F("from_vec", <<F("to_vec", <<Pt(p)>>)>>) = Pt(p)
  /\ F("to_vec", <<F("origin", <<Tv("Point" \o ToString(N))>>)>>) = Vec(VZero(N))
  /\ F("dot", <<Pt(p), Vec(w)>>).c[1] = Dot(p, w)
  /\ F("midpoint", <<Pt(p), Pt(q)>>).c = VAdd(p, VScale(VSub(q, p), Half))
  /\ F("centroid", <<Pt(p), Pt(q), Pt(w)>>).c = VScale(VAdd(VAdd(p, q), w), <<1, 3>>)
  /\ F("centroid", <<Pt(p)>>) = Pt(p)
  /\ (N = 3 /\ a # Zero => F("from_homogeneous", <<F("mul_s", <<F("to_homogeneous", <<Pt(p)>>), Sv(a)>>)>>) = Pt(p))
=============================================================================
