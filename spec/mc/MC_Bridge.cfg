SPECIFICATION Spec
INVARIANTS BridgeMatrix BridgeMatrix2 BridgeVector BridgeQuaternion BridgeScalarMatrix BridgeScalarQuaternion
CHECK_DEADLOCK FALSE
