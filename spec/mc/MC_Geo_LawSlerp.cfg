SPECIFICATION Spec
CONSTANTS QUICK = TRUE
INVARIANTS LawSlerp
CHECK_DEADLOCK FALSE
