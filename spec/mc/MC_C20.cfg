SPECIFICATION Spec
INVARIANTS VisitorLaw Emit EmitMalformed
CHECK_DEADLOCK FALSE
