SPECIFICATION Spec
INVARIANTS VisitorLaw Emit
CHECK_DEADLOCK FALSE
