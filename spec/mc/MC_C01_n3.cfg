SPECIFICATION Spec
CONSTANTS N = 3
 QUICK = TRUE
INVARIANTS LawElements LawProducts LawAccessors LawEmbed LawConstructors LawRing
CHECK_DEADLOCK FALSE
