------------------------------- MODULE Gen_C13 -------------------------------
(* Pipeline A for C13: every multiple of 1/8 turn in [-3, 3] turns through    *)
(* normalize / normalize_signed / opposite in both units, and every PAIR of    *)
(* multiples of 1/8 turn in [-1.5, 1.5] turns through bisect (both orders are  *)
(* in the enumeration).  Exhaustive over the grid of the design check MC_C13.  *)
EXTENDS Api, Json
VARIABLES prog, phase
vars == <<prog, phase>>
Nil == [t |-> "Nil", c |-> <<>>]
Call(op, f, a, d) == [op |-> op, f |-> f, a |-> a, d |-> d]
Prog(regs, calls) == [sc |-> <<"Q", "f64">>, regs |-> regs \o [i \in 1..(20 - Len(regs)) |-> Nil], calls |-> calls]
Grid == {Norm(i, 2) : i \in -24..24}
Small == {Norm(i, 2) : i \in -12..12}
AQV(u, q) == V(u, AQuarters(q))
Units == {"Rad", "Deg"}
OneArg == {Prog(<<AQV(u, q)>>, <<Call("normalize_ang", "m", <<1>>, 2), Call("normalize_signed", "m", <<1>>, 3), Call("opposite", "m", <<1>>, 4)>>) : u \in Units, q \in Grid}
Pairs(u) == {Prog(<<AQV(u, p), AQV(u, q)>>, <<Call("bisect", "m", <<1, 2>>, 3)>>) : p \in Small, q \in Small}
Init == prog = Nil /\ phase = "pick"
Next == phase = "pick" /\ \/ \E p \in OneArg : prog' = p /\ phase' = "emit"
                          \/ \E u \in Units : \E p \in Pairs(u) : prog' = p /\ phase' = "emit"
Spec == Init /\ [][Next]_vars
Emit == phase = "emit" => PrintT(<<"REPLAY", ToJson(prog)>>)
=============================================================================
