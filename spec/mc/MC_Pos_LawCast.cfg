SPECIFICATION Spec
INVARIANTS LawCast
CHECK_DEADLOCK FALSE
