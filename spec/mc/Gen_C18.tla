------------------------------- MODULE Gen_C18 -------------------------------
(* Pipeline A for C18: for every compound type and every component position  *)
(* a pair of values that differ in exactly that position (just outside and    *)
(* just inside the tolerance), and for every matrix size, predicate and       *)
(* element a base matrix (identity / diagonal / symmetric / zero) with        *)
(* exactly that element perturbed.  One program per pattern.                  *)
EXTENDS Api, Json
VARIABLES prog, phase
vars == <<prog, phase>>
Nil == [t |-> "Nil", c |-> <<>>]
Call(op, f, a, d) == [op |-> op, f |-> f, a |-> a, d |-> d]
Prog(regs, calls) == [sc |-> <<"Q", "f64", "f32">>, regs |-> regs \o [i \in 1..(20 - Len(regs)) |-> Nil], calls |-> calls]
Kinds == {"Vector1", "Vector2", "Vector3", "Vector4", "Point1", "Point2", "Point3", "Matrix2", "Matrix3", "Matrix4", "Quaternion",
          "Basis2", "Basis3", "DecQ", "Dec3", "Dec2"}
NC(kd) == CASE kd \in {"Vector1", "Point1"} -> 1 [] kd \in {"Vector2", "Point2"} -> 2 [] kd \in {"Vector3", "Point3"} -> 3
            [] kd \in {"Vector4", "Matrix2", "Quaternion", "Basis2"} -> 4 [] kd \in {"Matrix3", "Basis3"} -> 9 [] kd = "Matrix4" -> 16
            [] kd = "DecQ" -> 8 [] kd = "Dec3" -> 13 [] kd = "Dec2" -> 7
\* a value of the kind from its canonical component list
Build(kd, s) == CASE kd \in {"Vector1", "Vector2", "Vector3", "Vector4"} -> V("Vec", s)
                  [] kd \in {"Point1", "Point2", "Point3"} -> V("Pt", s)
                  [] kd \in {"Matrix2", "Matrix3", "Matrix4"} -> V("Mat", FromFlat(s, ISqrt(Len(s))))
                  [] kd \in {"Basis2", "Basis3"} -> V("Basis", FromFlat(s, ISqrt(Len(s))))
                  [] kd = "Quaternion" -> V("Quat", <<s[4], s[1], s[2], s[3]>>)
                  [] kd = "DecQ" -> DecV(s[1], V("Quat", <<s[5], s[2], s[3], s[4]>>), SubSeq(s, 6, 8))
                  [] kd = "Dec3" -> DecV(s[1], V("Basis", FromFlat(SubSeq(s, 2, 10), 3)), SubSeq(s, 11, 13))
                  [] kd = "Dec2" -> DecV(s[1], V("Basis", FromFlat(SubSeq(s, 2, 5), 2)), SubSeq(s, 6, 7))
Base(n) == [x \in 1..n |-> Norm(2 * x - 5, 1 + (x % 2))]
Deltas == {<<1, 4>>, <<-1, 4>>, <<1, 16>>}          \* outside, outside, inside the tolerance 1/8
ApproxProgs == {Prog(<<Build(kd, Base(NC(kd))), Build(kd, [Base(NC(kd)) EXCEPT ![i] = RAdd(@, d)]), Sv(<<1, 8>>), Sv(<<1, 32>>), Iv(4), Sv(<<1, 1024>>)>>,
                     <<Call("abs_diff_eq", "m", <<1, 2, 3>>, 7), Call("abs_diff_eq", "m", <<2, 1, 3>>, 8), Call("relative_eq", "m", <<1, 2, 6, 4>>, 9),
                       Call("ulps_eq", "m", <<1, 2, 3, 5>>, 10), Call("eq", "m", <<1, 2>>, 11), Call("eq", "m", <<2, 2>>, 12)>>)
                  : kd \in Kinds, i \in 1..16, d \in Deltas} 
\* keep only positions that exist
ApproxProgsOf(kd) == {Prog(<<Build(kd, Base(NC(kd))), Build(kd, [Base(NC(kd)) EXCEPT ![i] = RAdd(@, d)]), Sv(<<1, 8>>), Sv(<<1, 32>>), Iv(4), Sv(<<1, 1024>>)>>,
                     <<Call("abs_diff_eq", "m", <<1, 2, 3>>, 7), Call("abs_diff_eq", "m", <<2, 1, 3>>, 8), Call("relative_eq", "m", <<1, 2, 6, 4>>, 9),
                       Call("ulps_eq", "m", <<1, 2, 3, 5>>, 10), Call("eq", "m", <<1, 2>>, 11), Call("eq", "m", <<2, 2>>, 12)>>)
                  : i \in 1..NC(kd), d \in Deltas}
\* matrix predicates: base matrices with exactly one element perturbed (position 0 = unperturbed)
BaseMat(n, which) == [c \in 1..n |-> [r \in 1..n |->
     CASE which = "identity" -> IF c = r THEN One ELSE Zero
       [] which = "diagonal" -> IF c = r THEN R(c + 1) ELSE Zero
       [] which = "symmetric" -> R(c * r + c + r)
       [] which = "zero" -> Zero]]
PredProgsOf(n) == {Prog(<<V("Mat", FromFlat([Flat(BaseMat(n, w)) EXCEPT ![IF i = 0 THEN 1 ELSE i] = IF i = 0 THEN @ ELSE RAdd(@, d)], n))>>,
                        <<Call("is_identity", "m", <<1>>, 2), Call("is_diagonal", "m", <<1>>, 3), Call("is_symmetric", "m", <<1>>, 4),
                          Call("is_zero_approx", "m", <<1>>, 5), Call("is_finite", "m", <<1>>, 6), Call("is_invertible", "m", <<1>>, 7)>>)
                     : w \in {"identity", "diagonal", "symmetric", "zero"}, i \in 0..(n * n), d \in {<<1, 4>>, <<-1, 1024>>}}
\* is_finite: exactly one non-finite component
FiniteProgsOf(kd) == IF kd \in {"Basis2", "Basis3", "DecQ", "Dec3", "Dec2"} THEN {}
                     ELSE {Prog(<<Build(kd, [Base(NC(kd)) EXCEPT ![i] = bad])>>, <<Call("is_finite", "m", <<1>>, 2)>>) : i \in 1..NC(kd), bad \in {<<1, 0>>, <<-1, 0>>, <<0, 0>>}}
Init == prog = Nil /\ phase = "pick"
Next == phase = "pick" /\ \/ \E kd \in Kinds : \E p \in ApproxProgsOf(kd) \cup FiniteProgsOf(kd) : prog' = p /\ phase' = "emit"
                          \/ \E n \in 2..4 : \E p \in PredProgsOf(n) : prog' = p /\ phase' = "emit"
Spec == Init /\ [][Next]_vars
Emit == phase = "emit" => PrintT(<<"REPLAY", ToJson(prog)>>)
=============================================================================
