SPECIFICATION Spec
CONSTANTS QUICK = FALSE
INVARIANTS LawAxisAngle LawEuler
CHECK_DEADLOCK FALSE
