SPECIFICATION Spec
CONSTANTS K = 4
 MMAX = 7
INVARIANTS Emit RoundTrip
CHECK_DEADLOCK FALSE
