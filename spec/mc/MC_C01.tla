------------------------------- MODULE MC_C01 -------------------------------
(* Design check for C01: the column-major, column-vector convention.        *)
(* Phased enumeration: matrix A column by column from a pool, then B and C  *)
(* from a list, then a vector and a scalar; the laws are state invariants   *)
(* evaluated once all operands are chosen.  Enumeration happens in Next so  *)
(* that TLC's workers share it.                                             *)
EXTENDS Fn
CONSTANTS N,        \* dimension 2, 3 or 4
          QUICK     \* TRUE: the small pools
VARIABLES A, B, C, v, k, phase
vars == <<A, B, C, v, k, phase>>

Ints(S) == {R(i) : i \in S}
Pool2 == IF QUICK THEN {<<R(a), R(b)>> : a \in {-1, 0, 2}, b \in {-1, 0, 2}} ELSE {<<R(a), R(b)>> : a \in -1..2, b \in -1..2}
Pool3 == {<<R(1), R(0), R(0)>>, <<R(0), R(1), R(0)>>, <<R(0), R(0), R(1)>>, <<R(2), R(-1), R(3)>>, <<<<1, 2>>, R(4), R(-2)>>,
          <<R(-3), <<2, 3>>, R(1)>>} \cup (IF QUICK THEN {} ELSE {<<R(0), R(0), R(0)>>, <<R(5), R(-2), <<-1, 4>>>>, <<R(1), R(1), R(1)>>})
Pool4 == {<<R(1), R(0), R(0), R(0)>>, <<R(2), R(-1), R(3), R(1)>>, <<<<1, 2>>, R(4), R(-2), R(0)>>,
          <<R(-3), <<2, 3>>, R(1), R(-1)>>} \cup (IF QUICK THEN {} ELSE {<<R(0), R(0), R(1), R(0)>>, <<R(1), R(-2), R(2), <<3, 2>>>>})   \* 6^4 matrices: the thorough run stays near ten minutes
Pool == CASE N = 2 -> Pool2 [] N = 3 -> Pool3 [] N = 4 -> Pool4
\* dense second and third operands
Dense(n, s) == [c \in 1..n |-> [r \in 1..n |-> Norm(((c * 7 + r * 3 + s * 5) % 11) - 5, 1 + ((c + 2 * r + s) % 3))]]
BList == {Dense(N, 1), Dense(N, 2), Id(N)} \cup (IF QUICK THEN {} ELSE {Dense(N, 3), MZero(N), Transpose(Dense(N, 4))})
CList == {Dense(N, 5)} \cup (IF QUICK THEN {} ELSE {Dense(N, 6)})
Scalars == {R(2), <<-1, 2>>} \cup (IF QUICK THEN {} ELSE IF N = 4 THEN {R(0)} ELSE {R(0), R(-3)})

Init == A = <<>> /\ B = <<>> /\ C = <<>> /\ v = <<>> /\ k = Zero /\ phase = "A"
Next == \/ phase = "A" /\ \E col \in Pool : A' = Append(A, col) /\ phase' = (IF Len(A) + 1 = N THEN "BC" ELSE "A") /\ UNCHANGED <<B, C, v, k>>
        \/ phase = "BC" /\ \E b \in BList, c \in CList : B' = b /\ C' = c /\ phase' = "v" /\ UNCHANGED <<A, v, k>>
        \/ phase = "v" /\ \E x \in Pool, s \in Scalars : v' = x /\ k' = s /\ phase' = "done" /\ UNCHANGED <<A, B, C>>
Spec == Init /\ [][Next]_vars
Done == phase = "done"
Mat(M) == V("Mat", M)
Vec(x) == V("Vec", x)

\* element (column c, row r) is the r-th component of the c-th column given to the constructors
LawElements == Done => /\ LinFn("mat_new", "Q", [i \in 1..(N * N) |-> Sv(Flat(A)[i])]) = Mat(A)
                       /\ LinFn("from_cols", "Q", [c \in 1..N |-> Vec(A[c])]) = Mat(A)
                       /\ \A c \in 1..N : LinFn("col", "Q", <<Mat(A), Iv(c - 1)>>) = Vec(A[c])
                       /\ \A r \in 1..N : LinFn("row", "Q", <<Mat(A), Iv(r - 1)>>) = Vec([c \in 1..N |-> A[c][r]])
\* A*v is the combination of the columns; column c of A*B is A*(column c of B); the code's strategies agree
LawProducts == Done => /\ MulMV(A, v) = FnMulMV(A, v)
                       /\ MulMM(A, B) = FnMulMM(A, B)
                       /\ \A c \in 1..N : MulMM(A, B)[c] = MulMV(A, B[c])
                       /\ LinFn("mul", "Q", <<Mat(A), Vec(v)>>) = Vec(FnMulMV(A, v))
                       /\ LinFn("mul", "Q", <<Mat(A), Mat(B)>>) = Mat(FnMulMM(A, B))
LawAccessors == Done => /\ LinFn("transpose", "Q", <<Mat(A)>>).c = [c \in 1..N |-> Row(A, c)]
                        /\ LinFn("diagonal", "Q", <<Mat(A)>>).c = [i \in 1..N |-> A[i][i]]
                        /\ LinFn("trace", "Q", <<Mat(A)>>).c[1] = SumSeq([i \in 1..N |-> A[i][i]])
\* a smaller matrix embedded in a larger one acts on the leading coordinates and fixes the rest
LawEmbed == (Done /\ N < 4) => \A m \in (N + 1)..4 :
               LET E == LinFn("embed", "Q", <<Mat(A), Iv(m)>>).c
                   ext(x) == x \o [i \in 1..(m - N) |-> R(7)] IN
               MulMV(E, ext(v)) = MulMV(A, v) \o [i \in 1..(m - N) |-> R(7)]
\* identity / from_value / from_diagonal / from_scale / from_translation: scaling by the factors, displacement by the offset
LawConstructors == Done =>
     /\ MulMV(LinFn("identity", "Q", <<Tv("Matrix" \o ToString(N))>>).c, v) = v
     /\ MulMV(LinFn("mat_from_value", "Q", <<Tv("Matrix" \o ToString(N)), Sv(k)>>).c, v) = VScale(v, k)
     /\ MulMV(LinFn("from_diagonal", "Q", <<Vec(A[1])>>).c, v) = VMulE(A[1], v)
     /\ N >= 3 => LET m == N - 1  p == SubSeq(v, 1, m)  t == SubSeq(A[1], 1, m)
                      T == LinFn("from_translation", "Q", <<Vec(t)>>).c
                      S == LinFn("from_scale", "Q", <<Tv("Matrix" \o ToString(N)), Sv(k)>>).c
                      NU == LinFn("from_nonuniform_scale", "Q", [i \in 1..m |-> Sv(t[i])]).c IN
                  /\ MulMV(T, Append(p, One)) = Append(VAdd(p, t), One)          \* points are displaced
                  /\ MulMV(T, Append(p, Zero)) = Append(p, Zero)                  \* vectors are not
                  /\ MulMV(S, Append(p, One)) = Append(VScale(p, k), One)
                  /\ MulMV(NU, Append(p, One)) = Append(VMulE(t, p), One)
\* sum, difference, negation, scalar multiples are element-wise: matrices form a ring acting linearly on vectors
LawRing == Done => /\ MulMM(A, MAdd(B, C)) = MAdd(MulMM(A, B), MulMM(A, C))
                   /\ MulMV(MAdd(A, B), v) = VAdd(MulMV(A, v), MulMV(B, v))
                   /\ MulMV(A, VScale(v, k)) = VScale(MulMV(A, v), k)
                   /\ MulMM(MulMM(A, B), C) = MulMM(A, MulMM(B, C))
                   /\ MulMM(Id(N), A) = A /\ MulMM(A, Id(N)) = A
                   /\ LinFn("add", "Q", <<Mat(A), Mat(B)>>).c = [c \in 1..N |-> [r \in 1..N |-> RAdd(A[c][r], B[c][r])]]
                   /\ LinFn("sub", "Q", <<Mat(A), Mat(B)>>).c = [c \in 1..N |-> [r \in 1..N |-> RSub(A[c][r], B[c][r])]]
                   /\ LinFn("neg", "Q", <<Mat(A)>>).c = [c \in 1..N |-> [r \in 1..N |-> RNeg(A[c][r])]]
                   /\ LinFn("mul_s", "Q", <<Mat(A), Sv(k)>>).c = [c \in 1..N |-> [r \in 1..N |-> RMul(A[c][r], k)]]
=============================================================================
