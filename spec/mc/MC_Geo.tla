------------------------------- MODULE MC_Geo -------------------------------
(* Design checks for C09 (view constructors), C11 (metric), C14 (slerp) and  *)
(* C15 (arcs): the transcribed algorithms meet the geometric contracts on    *)
(* rational frames / rational points of the spheres.                         *)
EXTENDS Fn
CONSTANTS QUICK
VARIABLES q1, q2, k, phase
vars == <<q1, q2, k, phase>>
UQ == {<<<<1, 2>>, <<1, 2>>, <<1, 2>>, <<-1, 2>>>>, <<<<2, 3>>, <<-1, 3>>, <<0, 1>>, <<2, 3>>>>, <<<<1, 5>>, <<2, 5>>, <<-2, 5>>, <<4, 5>>>>, QOne,
       <<<<0, 1>>, <<3, 5>>, <<4, 5>>, <<0, 1>>>>, <<<<2, 7>>, <<4, 7>>, <<-5, 7>>, <<2, 7>>>>}
      \cup (IF QUICK THEN {} ELSE {<<<<1, 6>>, <<1, 6>>, <<1, 2>>, <<-5, 6>>>>, <<<<4, 9>>, <<-4, 9>>, <<7, 9>>, <<0, 1>>>>, <<<<-2, 3>>, <<0, 1>>, <<1, 3>>, <<2, 3>>>>})
Ks == {<<1, 2>>, R(2), R(3)}
Init == q1 = QOne /\ q2 = QOne /\ k = One /\ phase = "a"
Next == \/ phase = "a" /\ \E x \in UQ, s \in Ks : q1' = x /\ k' = s /\ phase' = "b" /\ UNCHANGED q2
        \/ phase = "b" /\ \E y \in UQ : q2' = y /\ phase' = "done" /\ UNCHANGED <<q1, k>>
Spec == Init /\ [][Next]_vars
Done == phase = "done"
\* a rational orthonormal frame from q1; a second unit vector from q2
F1 == QMat3(q1)
U3a == QMat3(q1)[1]
U3b == QMat3(q2)[3]
\* rational points of the 2-sphere with small denominators for the arc contracts (32-bit budget: the rotation matrix of
\* the arc has denominators of the order of the product of the squares)
S2 == << <<<<1, 3>>, <<2, 3>>, <<2, 3>>>>, <<<<2, 3>>, <<-1, 3>>, <<2, 3>>>>, <<<<2, 7>>, <<3, 7>>, <<6, 7>>>>, <<R(0), <<3, 5>>, <<-4, 5>>>>,
         <<R(1), R(0), R(0)>>, <<<<-6, 7>>, <<2, 7>>, <<3, 7>>>>, <<<<4, 9>>, <<-4, 9>>, <<7, 9>>>>, <<R(0), R(0), R(-1)>>, <<<<-2, 3>>, <<-2, 3>>, <<1, 3>>>> >>
UQSeq == SetToSeq(UQ)
IdxOf(q) == CHOOSE i \in 1..Len(UQSeq) : UQSeq[i] = q
A3 == S2[((IdxOf(q1) - 1) % Len(S2)) + 1]
B3 == S2[((IdxOf(q2) + 2) % Len(S2)) + 1]
\* ---- C09: dir = k f, up = k' u + c f in the frame (s, u, f): every normalisation is exact
Dir == VScale(F1[3], k)
Up == VAdd(VScale(F1[2], RAdd(k, One)), VScale(F1[3], RSub(k, Two)))
Eye == <<R(1), <<-3, 2>>, R(2)>>
LawLook == Done =>
  /\ LookExact(Dir, Up)
  /\ LookRel(FnLookToLh(Dir, Up), Dir, Up, "lh") /\ LookRel(FnLookToRh(Dir, Up), Dir, Up, "rh")
  /\ Look4Rel(FnLookToRh4(Eye, Dir, Up), Eye, Dir, Up, "rh") /\ Look4Rel(FnLookToLh4(Eye, Dir, Up), Eye, Dir, Up, "lh")
  /\ Block3(FnLookToRh4(Eye, Dir, Up)) = FnLookToRh(Dir, Up) /\ Block3(FnLookToLh4(Eye, Dir, Up)) = FnLookToLh(Dir, Up)   \* same handedness agree
  /\ LET d2 == VScale(<<F1[1][1], F1[1][2]>>, k)  u2 == <<F1[2][1], R(2)>> IN
     (ExactNorm(d2) /\ PerpDot(u2, d2) # Zero) => Look2Rel(FnLookAt2(d2, u2), d2, u2)
\* ---- C11: magnitude / normalize / distance / angle / projection on exact vectors
LawMetric == Done =>
  LET v == VScale(U3a, RNeg(k))  w == VScale(U3b, k) IN
  /\ GeoRel("magnitude", "Q", "m", <<V("Vec", v)>>, Sv(FnMagnitude(v)))
  /\ GeoRel("normalize", "Q", "m", <<V("Vec", v)>>, V("Vec", FnNormalizeV(v)))
  /\ Mag2(FnNormalizeV(v)) = One
  /\ GeoRel("normalize_to", "Q", "m", <<V("Vec", v), Sv(k)>>, V("Vec", VScale(FnNormalizeV(v), k)))
  /\ GeoRel("distance", "Q", "m", <<V("Vec", v), V("Vec", VZero(3))>>, Sv(FnMagnitude(v)))
  /\ LET p == LinFn("project_on", "Q", <<V("Vec", v), V("Vec", w)>>).c IN Cross(p, w) = VZero(3) /\ Dot(VSub(v, p), w) = Zero
\* ---- C15: the transcribed between_vectors (quaternion, in square-root form) meets the arc contract; 2-D after / before the fix
LawArc == Done =>
  /\ BetweenRel("Quaternion", A3, B3, V("Quat", FnBetweenQuat(A3, B3)))
  /\ BetweenRel("Quaternion", A3, VNeg(A3), V("Quat", FnBetweenQuat(A3, VNeg(A3))))
  /\ BetweenRel("Quaternion", A3, A3, V("Quat", FnBetweenQuat(A3, A3)))
  /\ BetweenRel("Basis3", A3, B3, V("Basis", SurdQMat3(FnBetweenQuat(A3, B3))))
  /\ LET a2 == <<q1[1], q1[2]>>  b2 == <<q2[3], q2[4]>> IN
     (Mag2(a2) = One /\ Mag2(b2) = One) => BetweenRel("Basis2", a2, b2, V("Basis", FnBetween2(a2, b2)))
\* the pre-fix 2-D formula is rejected whenever b is clockwise of a
ASSUME LET a2 == <<<<4, 5>>, <<3, 5>>>>  b2 == <<<<-7, 25>>, <<-24, 25>>>> IN
       BetweenRel("Basis2", a2, b2, V("Basis", FnBetween2(a2, b2))) /\ ~BetweenRel("Basis2", a2, b2, V("Basis", FnBetween2Old(a2, b2)))
\* ---- C14: slerp along a great circle through table angles; lerp endpoints
SlerpCases == {<<<<2, 1, -2, 0>>, <<1, 2>>>>, <<<<-2, 1, 4, 0>>, <<1, 2>>>>, <<<<0, 1, 1, 0>>, <<0, 1>>>>, <<<<1, 1, -1, 0>>, <<1, 1>>>>}
\* (quaternions with denominators that are multiples of 5 are left out: the squared norm would exceed TLC's 32-bit integers)
\* (denominators 5 and 9 take the enclosure arithmetic of the slerp contract beyond TLC's 32-bit integers)
LawSlerp == (Done /\ \A i \in 1..4 : q1[i][2] \in {1, 2, 3, 6, 7}) =>
  \A cs \in SlerpCases :
    LET g == cs[1]  t == cs[2]
        a == q1  c == QMul(q1, <<Zero, Zero, One, Zero>>)
        b == VAdd(VScale(a, Cos(g)), VScale(c, Sin(g))) IN
    /\ SlerpRel(a, b, t, V("Quat", FnSlerp(a, b, t, g)))
    /\ SlerpRel(a, VNeg(b), t, V("Quat", FnSlerp(a, VNeg(b), t, g)))
    /\ LinFn("lerp", "Q", <<V("Quat", a), V("Quat", b), Sv(Zero)>>).c = a /\ LinFn("lerp", "Q", <<V("Quat", a), V("Quat", b), Sv(One)>>).c = b
=============================================================================
