SPECIFICATION Spec
CONSTANTS QUICK = TRUE
INVARIANTS LawMetric
CHECK_DEADLOCK FALSE
