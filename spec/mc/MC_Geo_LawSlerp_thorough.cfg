SPECIFICATION Spec
CONSTANTS QUICK = FALSE
INVARIANTS LawSlerp
CHECK_DEADLOCK FALSE
