SPECIFICATION Spec
CONSTANTS QUICK = TRUE
INVARIANTS LawOrtho LawFrustum LawPerspective LawPlanar
CHECK_DEADLOCK FALSE
