SPECIFICATION Spec
CONSTANTS N = 3
 QUICK = FALSE
INVARIANTS LawDet ImplMeetsContract LawTranspose LawSwaps LawPanics
CHECK_DEADLOCK FALSE
