SPECIFICATION Spec
CONSTANTS QUICK = TRUE
INVARIANTS LawConcat LawInverse LawMatrix
CHECK_DEADLOCK FALSE
