------------------------------- MODULE MC_C06 -------------------------------
(* Design check for C06 (angle / axis-angle constructors) and C07 (Euler).   *)
(* Axes: rational points of the 2-sphere; angles: the symbolic table.        *)
EXTENDS Fn
CONSTANTS QUICK
VARIABLES ax, g1, g2, g3, v, phase
vars == <<ax, g1, g2, g3, v, phase>>
Axes == {<<R(1), R(0), R(0)>>, <<R(0), R(1), R(0)>>, <<R(0), R(0), R(1)>>, <<<<1, 3>>, <<2, 3>>, <<-2, 3>>>>, <<<<2, 7>>, <<3, 7>>, <<6, 7>>>>,
         <<<<-4, 9>>, <<1, 9>>, <<8, 9>>>>} \cup (IF QUICK THEN {} ELSE {<<<<3, 5>>, R(0), <<-4, 5>>>>, <<<<-6, 11>>, <<-2, 11>>, <<9, 11>>>>})
Angles == {<<an, 1, k, 0>> : an \in (IF QUICK THEN {-2, 0, 1} ELSE -2..2), k \in (IF QUICK THEN {-2, 0, 1} ELSE {-2, -1, 0, 1, 2})}
\* the third angle ranges over the small table in both tiers (the thorough run is 8 * 25 * 25 * 9 * 2 = 90 000 states of symbolic trigonometry)
Angles3 == {<<an, 1, k, 0>> : an \in {-2, 0, 1}, k \in {-2, 0, 1}}
Even(g) == g[1] % 2 = 0 /\ g[3] % 2 = 0
VList == {<<R(1), R(-2), R(3)>>, <<<<1, 2>>, R(0), R(-1)>>}
Init == ax = <<>> /\ g1 = AZero /\ g2 = AZero /\ g3 = AZero /\ v = <<>> /\ phase = "a"
Next == \/ phase = "a" /\ \E a \in Axes, g \in Angles : ax' = a /\ g1' = g /\ phase' = "b" /\ UNCHANGED <<g2, g3, v>>
        \/ phase = "b" /\ \E g \in Angles, h \in Angles3, x \in VList : g2' = g /\ g3' = h /\ v' = x /\ phase' = "done" /\ UNCHANGED <<ax, g1>>
Spec == Init /\ [][Next]_vars
Done == phase = "done"
\* the code's closed forms are the Rodrigues rotation: fixes the axis, proper, counter-clockwise; angles add about a common axis
LawAxisAngle == Done =>
  /\ FnFromAxisAngle(ax, g1) = Rod(ax, g1)
  /\ IsRotation(Rod(ax, g1)) /\ MulMV(Rod(ax, g1), ax) = ax
  /\ MulMM(Rod(ax, g1), Rod(ax, g2)) = Rod(ax, AAdd(g1, g2))
  /\ MulMV(Rod(ax, g1), v) = RodV(ax, g1, v)
  /\ FnFromAngleX(g1) = RotX(g1) /\ FnFromAngleY(g1) = RotY(g1) /\ FnFromAngleZ(g1) = RotZ(g1)
  /\ MulMV(Rot2(g1), <<One, Zero>>) = <<Cos(g1), Sin(g1)>> /\ MulMV(Rot2(g1), <<Zero, One>>) = <<RNeg(Sin(g1)), Cos(g1)>>
  /\ MulMM(Rot2(g1), Rot2(g2)) = Rot2(AAdd(g1, g2))
  /\ (Even(g1) => /\ QMat3(FnQuatFromAxisAngle(ax, g1)) = Rod(ax, g1)
                  /\ GeoRel("from_axis_angle", "Q", "m", <<Tv("Quaternion"), V("Vec", ax), V("Rad", g1)>>, V("Quat", FnQuatFromAxisAngle(ax, g1))))
  /\ \A name \in {"Matrix3", "Matrix4", "Basis3"} :
       GeoRel("from_axis_angle", "Q", "m", <<Tv(name), V("Vec", ax), V("Deg", g1)>>,
              V(IF name = "Basis3" THEN "Basis" ELSE "Mat", IF name = "Matrix4" THEN Embed(FnFromAxisAngle(ax, g1), 4) ELSE FnFromAxisAngle(ax, g1)))
\* C07: the closed forms are Rx * Ry * Rz, the half-angle quaternion gives the same rotation, extraction rebuilds it
LawEuler == Done =>
  LET e == <<g1, g2, g3>> IN
  /\ FnMat3FromEuler(e) = EulerMat(e)
  /\ EulerMat(e) = MulMM(MulMM(FnFromAngleX(g1), FnFromAngleY(g2)), FnFromAngleZ(g3))
  /\ ((Even(g1) /\ Even(g2) /\ Even(g3)) =>
        LET q == FnQuatFromEuler(e) IN
        /\ Mag2(q) = One /\ QMat3(q) = EulerMat(e)
        /\ EulerExtractable(q) => EulerFromQuatRel(q, V("ERad", FnEulerFromQuat(q))))
=============================================================================
