------------------------------- MODULE Gen_C15 -------------------------------
(* Pipeline A for C15: every special position the arc constructors branch on: *)
(* equal, opposite (for each coordinate axis and for oblique vectors: the     *)
(* perpendicular axis is chosen differently when the vector is parallel to x), *)
(* and generic pairs, for Quaternion, Basis3, Basis2 and from_arc with and     *)
(* without a fallback axis and with non-unit lengths.                          *)
EXTENDS Api, Json
VARIABLES prog, phase
vars == <<prog, phase>>
Nil == [t |-> "Nil", c |-> <<>>]
Call(op, f, a, d) == [op |-> op, f |-> f, a |-> a, d |-> d]
Prog(regs, calls) == [sc |-> <<"Q", "f64">>, regs |-> regs \o [i \in 1..(20 - Len(regs)) |-> Nil], calls |-> calls]
Axes3 == {VUnit(3, 1), VUnit(3, 2), VUnit(3, 3), VNeg(VUnit(3, 1)), VNeg(VUnit(3, 2)), VNeg(VUnit(3, 3))}
S2 == Axes3 \cup {<<<<1, 3>>, <<2, 3>>, <<2, 3>>>>, <<<<2, 3>>, <<-1, 3>>, <<2, 3>>>>, <<<<2, 7>>, <<3, 7>>, <<6, 7>>>>, <<R(0), <<3, 5>>, <<-4, 5>>>>,
                  <<<<-6, 7>>, <<2, 7>>, <<3, 7>>>>, <<<<3, 5>>, R(0), <<4, 5>>>>, <<<<4, 9>>, <<-4, 9>>, <<7, 9>>>>}
S1 == {<<R(1), R(0)>>, <<R(0), R(1)>>, <<R(-1), R(0)>>, <<R(0), R(-1)>>, <<<<3, 5>>, <<4, 5>>>>, <<<<-4, 5>>, <<3, 5>>>>, <<<<5, 13>>, <<-12, 13>>>>, <<<<-7, 25>>, <<-24, 25>>>>}
Others(a) == {a, VNeg(a)} \cup {<<<<2, 3>>, <<2, 3>>, <<-1, 3>>>>, VUnit(3, 2)}
Vec(x) == V("Vec", x)
BetweenProgs == {Prog(<<Tv(ty), Vec(a), Vec(b)>>, <<Call("between_vectors", "m", <<1, 2, 3>>, 4), Call("rotate_vector", "m", <<4, 2>>, 5)>>)
                   : ty \in {"Quaternion", "Basis3"}, a \in S2, b \in UNION {Others(x) : x \in S2}}
Between3(ty) == UNION {{Prog(<<Tv(ty), Vec(a), Vec(b)>>, <<Call("between_vectors", "m", <<1, 2, 3>>, 4)>>) : b \in Others(a)} : a \in S2}
Between2 == {Prog(<<Tv("Basis2"), Vec(a), Vec(b)>>, <<Call("between_vectors", "m", <<1, 2, 3>>, 4), Call("rotate_vector", "m", <<4, 2>>, 5)>>) : a \in S1, b \in S1}
\* a unit axis perpendicular to a (for the fallback of opposite vectors): a x e normalised when rational, else none
Perp(a) == LET c == Cross(a, IF a[1] # Zero /\ a[2] = Zero /\ a[3] = Zero THEN VUnit(3, 2) ELSE VUnit(3, 1)) IN
           IF RIsSquare(Mag2(c)) /\ Mag2(c) # Zero THEN VScale(c, RDiv(One, RSqrt(Mag2(c)))) ELSE <<>>
Scales == {One, R(3), <<1, 2>>}
ArcProgs == UNION {{Prog(<<Vec(VScale(a, k)), Vec(VScale(b, m)), fb>>, <<Call("from_arc", "m", <<1, 2, 3>>, 4)>>)
                     : b \in Others(a), k \in Scales, m \in {One, <<5, 2>>},
                       fb \in {NoneV} \cup (IF Perp(a) = <<>> THEN {} ELSE {SomeV(Vec(Perp(a)))})} : a \in S2}
Init == prog = Nil /\ phase = "pick"
Next == phase = "pick" /\ \/ \E ty \in {"Quaternion", "Basis3"} : \E p \in Between3(ty) : prog' = p /\ phase' = "emit"
                          \/ \E p \in Between2 \cup ArcProgs : prog' = p /\ phase' = "emit"
Spec == Init /\ [][Next]_vars
Emit == phase = "emit" => PrintT(<<"REPLAY", ToJson(prog)>>)
=============================================================================
