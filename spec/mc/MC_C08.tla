------------------------------- MODULE MC_C08 -------------------------------
(* Design check for C08: the five Transform implementations.  An affine map  *)
(* is determined by its values on an affine basis, so every clause is        *)
(* decided exactly on the origin, the unit points and a dense point.         *)
EXTENDS Fn
CONSTANTS QUICK
VARIABLES s, t, phase
vars == <<s, t, phase>>
UQ == {<<<<1, 2>>, <<1, 2>>, <<1, 2>>, <<-1, 2>>>>, <<<<2, 3>>, <<-1, 3>>, <<0, 1>>, <<2, 3>>>>, <<<<1, 5>>, <<2, 5>>, <<-2, 5>>, <<4, 5>>>>, QOne}
         \cup (IF QUICK THEN {} ELSE {<<<<0, 1>>, <<3, 5>>, <<4, 5>>, <<0, 1>>>>, <<<<1, 6>>, <<1, 6>>, <<1, 2>>, <<-5, 6>>>>})
Scales == {R(-2), <<-1, 2>>, R(0), R(1), <<3, 2>>}
Tiny == {<<1, 2000000>>, <<-1, 2000000>>}     \* negligible but non-zero: only with a zero displacement (32-bit budget)
Disps3 == {<<R(0), R(0), R(0)>>, <<R(1), R(-2), <<1, 2>>>>} \cup (IF QUICK THEN {} ELSE {<<R(3), R(1), R(-1)>>})
Disps2 == {<<R(0), R(0)>>, <<R(1), <<-3, 2>>>>}
B2s == {Id(2), << <<<<3, 5>>, <<4, 5>>>>, <<<<-4, 5>>, <<3, 5>>>> >>, << <<<<-5, 13>>, <<12, 13>>>>, <<<<-12, 13>>, <<-5, 13>>>> >>}
DecQs == {DecV(sc, V("Quat", q), d) : sc \in Scales, q \in UQ, d \in Disps3} \cup {DecV(sc, V("Quat", q), VZero(3)) : sc \in Tiny, q \in UQ}
Dec3s == {DecV(sc, V("Basis", QMat3(q)), d) : sc \in Scales, q \in UQ, d \in Disps3}
Dec2s == {DecV(sc, V("Basis", b), d) : sc \in Scales, b \in B2s, d \in Disps2} \cup {DecV(sc, V("Basis", b), VZero(2)) : sc \in Tiny, b \in B2s}
All == DecQs \cup Dec3s \cup Dec2s
SameKind(x, y) == DecRot(x).t = DecRot(y).t /\ Len(DecDisp(x)) = Len(DecDisp(y))
Init == s = DecV(One, V("Quat", QOne), VZero(3)) /\ t = s /\ phase = "s"
Next == \/ phase = "s" /\ \E x \in All : s' = x /\ phase' = "t" /\ UNCHANGED t
        \/ phase = "t" /\ \E y \in All : SameKind(s, y) /\ ~Negligible(DecScale(y)) /\ t' = y /\ phase' = "done" /\ UNCHANGED s
Spec == Init /\ [][Next]_vars
Done == phase = "done"
DimS == Len(DecDisp(s))
TestPts == {VZero(DimS)} \cup {VUnit(DimS, i) : i \in 1..DimS} \cup {[i \in 1..DimS |-> Norm(2 * i - 3, i)]}
\* concat(s,t) applied to p or v equals s applied to the result of t; the transcription meets the contract
LawConcat == (Done /\ ~Negligible(DecScale(s))) =>
  LET c == FnDecConcat(s, t) IN
  /\ DecConcatRel(s, t, c)
  /\ \A p \in TestPts : TfPoint(c, p) = TfPoint(s, TfPoint(t, p)) /\ TfVector(c, p) = TfVector(s, TfVector(t, p))
  /\ \A p \in TestPts : FnDecPoint(s, p) = TfPoint(s, p)
  /\ \A p \in TestPts : TfVector(s, p) = VSub(TfPoint(s, p), TfPoint(s, VZero(DimS)))          \* vectors ignore the displacement
\* inverse_transform: None for scale 0, otherwise the transform that undoes it (None allowed only for negligible scales)
LawInverse == Done =>
  LET i == FnDecInverse(s) IN
  /\ DecInverseRel(s, i)
  /\ (DecScale(s) = Zero) = (i.t = "None")
  /\ (i.t = "Some" /\ ~Negligible(DecScale(s))) =>
        \A p \in TestPts : TfPoint(i.c[1], TfPoint(s, p)) = p /\ TfVector(i.c[1], TfVector(s, p)) = p
                           /\ InvVectorRel(s, TfVector(s, p), SomeV(V("Vec", p)))
\* conversion to a matrix commutes with applying, composing and inverting
LawMatrix == (Done /\ ~Negligible(DecScale(s))) =>
  LET M == MatFromDec(s)  Mt == MatFromDec(t) IN
  /\ \A p \in TestPts : TfPoint(V("Mat", M), p) = TfPoint(s, p) /\ TfVector(V("Mat", M), p) = TfVector(s, p)
  /\ MatFromDec(FnDecConcat(s, t)) = MulMM(M, Mt)
  /\ (DecScale(s) # Zero => MulMM(MatFromDec(FnDecInverse(s).c[1]), M) = Id(DimS + 1))
  /\ TfOne(IF DecRot(s).t = "Quat" THEN "DecQ" ELSE IF DimS = 3 THEN "Dec3" ELSE "Dec2") = DecV(One, IF DecRot(s).t = "Quat" THEN V("Quat", QOne) ELSE V("Basis", Id(DimS)), VZero(DimS))
=============================================================================
