------------------------------- MODULE MC_C20 -------------------------------
(* Design check and generator for C20: the hand-written Decomposed visitor   *)
(* as a state machine.  State: which of scale / rot / disp have been seen    *)
(* and whether an unknown key was met; actions: Key(k) and End.  TLC         *)
(* enumerates every key sequence without repetition (all arrangements of     *)
(* all subsets, with the unknown key at every position); the invariant is    *)
(* that the visitor accepts iff exactly the three fields were seen.  Each    *)
(* complete sequence is also emitted as a program for the real deserializer  *)
(* (three instantiations), so the enumeration is replayed into the code.     *)
EXTENDS Fn, Json
VARIABLES keys, seen, bad, outcome, phase
vars == <<keys, seen, bad, outcome, phase>>
Known == {"scale", "rot", "disp"}
AllKeys == Known \cup {"bogus"}
Init == keys = <<>> /\ seen = {} /\ bad = FALSE /\ outcome = "none" /\ phase = "feed"
\* the visitor's loop body: a known key stores its value, an unknown key is an error (custom error from the field visitor)
Key(k) == /\ phase = "feed" /\ k \notin {keys[i] : i \in 1..Len(keys)} /\ Len(keys) < 4
          /\ keys' = Append(keys, k)
          /\ IF k \in Known THEN seen' = seen \cup {k} /\ UNCHANGED bad ELSE bad' = TRUE /\ UNCHANGED seen
          /\ UNCHANGED <<outcome, phase>>
\* end of the map: missing_field for the first absent field, else Ok
End == /\ phase = "feed" /\ phase' = "done"
       /\ outcome' = IF bad THEN "Err" ELSE IF seen = Known THEN "Ok" ELSE "Err"
       /\ UNCHANGED <<keys, seen, bad>>
Next == (\E k \in AllKeys : Key(k)) \/ End
Spec == Init /\ [][Next]_vars
\* accepted with its three fields in any order; rejected, rather than silently defaulted, otherwise
VisitorLaw == phase = "done" => (outcome = "Ok") = DecAccepts(keys)
Nil == [t |-> "Nil", c |-> <<>>]
Call(op, f, a, d) == [op |-> op, f |-> f, a |-> a, d |-> d]
Decs == << DecV(<<5, 2>>, V("Quat", <<<<1, 2>>, <<1, 2>>, <<-1, 2>>, <<1, 2>>>>), <<R(1), R(-2), R(3)>>),
           DecV(<<-3, 4>>, V("Basis", QMat3(<<<<2, 3>>, <<-1, 3>>, <<0, 1>>, <<2, 3>>>>)), <<R(4), R(5), R(-6)>>),
           DecV(R(2), V("Basis", << <<<<3, 5>>, <<4, 5>>>>, <<<<-4, 5>>, <<3, 5>>>> >>), <<R(7), R(-8)>>) >>
Prog(d) == [sc |-> <<"f64", "f32">>, regs |-> <<d>> \o [i \in 1..Len(keys) |-> Tv(keys[i])] \o [i \in 1..(19 - Len(keys)) |-> Nil],
            calls |-> <<Call("serde_dec_keys", "m", [i \in 1..(Len(keys) + 1) |-> i], 10)>>]
\* inputs that never reach the field loop (not an object) or fail inside it (a field of the wrong type): always rejected
ProgM(d, kind) == [sc |-> <<"f64", "f32">>, regs |-> <<d, Tv(kind)>> \o [i \in 1..18 |-> Nil],
                   calls |-> <<Call("serde_dec_malformed", "m", <<1, 2>>, 10)>>]
EmitMalformed == (phase = "feed" /\ keys = <<>>) => \A i \in 1..3 : /\ \A kind \in MalformedKinds : PrintT(<<"REPLAY", ToJson(ProgM(Decs[i], kind))>>)
                                                                /\ PrintT(<<"REPLAY", ToJson([sc |-> <<"f64", "f32">>, regs |-> <<Decs[i]>> \o [j \in 1..19 |-> Nil],
                                                                                                calls |-> <<Call("serde_flatten", "m", <<1>>, 10)>>])>>)
Emit == phase = "done" => \A i \in 1..3 : PrintT(<<"REPLAY", ToJson(Prog(Decs[i]))>>)
=============================================================================
