SPECIFICATION Spec
CONSTANTS N = 4
 QUICK = FALSE
INVARIANTS LawDet ImplMeetsContract LawTranspose LawSwaps LawPanics
CHECK_DEADLOCK FALSE
