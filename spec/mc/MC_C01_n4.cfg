SPECIFICATION Spec
CONSTANTS N = 4
 QUICK = TRUE
INVARIANTS LawElements LawProducts LawAccessors LawEmbed LawConstructors LawRing
CHECK_DEADLOCK FALSE
