------------------------------ MODULE MC_Bridge ------------------------------
(* Bridge between the TLAPS-proved integer laws (proofs/IntLaws.tla) and the *)
(* specification's own operators (Lin, ApiLin, ApiGeo: normalised rationals, *)
(* matrices as sequences of columns).  IntLaws proves, for ALL integers, laws *)
(* about operators that are written with the same shape as the spec's; TLC    *)
(* confirms here, on a finite range of integer-valued arguments, that every   *)
(* IntLaws operator computes exactly what the spec's operator computes (so    *)
(* the proved laws are laws of the operators the contracts are written with). *)
(* The agreement is entry-by-entry syntactic for each operator; the finite    *)
(* range guards against transcription slips between the two modules.          *)
EXTENDS Api
IL == INSTANCE IntLaws
IP == INSTANCE IntPoly
VARIABLES A, B, u, v, p, q, phase
vars == <<A, B, u, v, p, q, phase>>

Cols3 == {<<1, 0, 0>>, <<2, -1, 3>>, <<-3, 2, 1>>, <<0, 1, -2>>}
Cols2 == {<<1, 0>>, <<2, -1>>, <<-3, 2>>, <<0, 5>>}
Quats == {<<1, 1, 1, 1>>, <<1, 2, 2, 4>>, <<0, 3, 0, -4>>, <<2, -1, 3, 1>>, <<-1, 0, 2, 2>>, <<1, 0, 0, 0>>}
RV(x) == [i \in 1..Len(x) |-> R(x[i])]
RM(M) == [c \in 1..Len(M) |-> RV(M[c])]
\* integer quaternions of integer norm m give rational unit quaternions q/m
QNormOf(x) == ISqrt(IL!Norm2(x))
IsSquareNorm(x) == QNormOf(x) * QNormOf(x) = IL!Norm2(x)
UnitOf(x) == [i \in 1..4 |-> Norm(x[i], QNormOf(x))]

\* two independent enumerations: matrices with vectors (mode "M"), quaternions with vectors (mode "Q")
A0 == << <<1, 0, 0>>, <<0, 1, 0>>, <<0, 0, 1>> >>
Init == /\ A = A0 /\ B = A0 /\ u = <<1, 2, 3>> /\ v = <<1, 2, 3>> /\ p = <<1, 0, 0, 0>> /\ q = <<1, 0, 0, 0>>
        /\ phase \in {"M_A", "Q_uv"}
Next == \/ phase = "M_A" /\ \E a1 \in Cols3, a2 \in Cols3, a3 \in Cols3 : A' = <<a1, a2, a3>> /\ phase' = "M_B" /\ UNCHANGED <<B, u, v, p, q>>
        \/ phase = "M_B" /\ \E b \in {<< <<2, 0, 1>>, <<-1, 3, 0>>, <<4, 1, -2>> >>, << <<0, 1, 0>>, <<0, 0, 1>>, <<1, 0, 0>> >>} :
                             B' = b /\ phase' = "M_uv" /\ UNCHANGED <<A, u, v, p, q>>
        \/ phase = "M_uv" /\ \E x \in Cols3, y \in Cols3 : u' = x /\ v' = y /\ phase' = "M_done" /\ UNCHANGED <<A, B, p, q>>
        \/ phase = "Q_uv" /\ \E x \in Cols3, y \in Cols3 : u' = x /\ v' = y /\ phase' = "Q_pq" /\ UNCHANGED <<A, B, p, q>>
        \/ phase = "Q_pq" /\ \E x \in Quats, y \in Quats : p' = x /\ q' = y /\ phase' = "Q_done" /\ UNCHANGED <<A, B, u, v>>
Spec == Init /\ [][Next]_vars
MDone == phase = "M_done"
QDone == phase = "Q_done"

BridgeMatrix == MDone =>
  /\ RM(IL!MulMM3(A, B)) = MulMM(RM(A), RM(B))
  /\ RV(IL!MulMV3(A, u)) = MulMV(RM(A), RV(u))
  /\ RM(IL!MAdd3(A, B)) = MAdd(RM(A), RM(B))
  /\ RM(IL!Tr3(A)) = Transpose(RM(A))
  /\ RM(IL!Id3) = Id(3)
  /\ R(IL!Det3(A)) = Det(RM(A))
  /\ RM(IL!MScale3(A, 3)) = MScale(RM(A), R(3))
  \* the adjugate over the determinant is what the inverse contract accepts                             (C02)
  /\ IL!Det3(A) # 0 => InvertRel(RM(A), V("Some", <<V("Mat", [c \in 1..3 |-> [r \in 1..3 |-> Norm(IL!Adj3(A)[c][r], IL!Det3(A))]])>>))
  /\ IL!Det3(A) = 0 => InvertRel(RM(A), V("None", <<>>))
BridgeMatrix2 == phase = "M_A" =>
  \A a1 \in Cols2, a2 \in Cols2, b1 \in Cols2, b2 \in Cols2 :
     LET X == <<a1, a2>>  Y == <<b1, b2>> IN
     /\ RM(IL!MulMM2(X, Y)) = MulMM(RM(X), RM(Y))
     /\ RV(IL!MulMV2(X, b1)) = MulMV(RM(X), RV(b1))
     /\ R(IL!Det2(X)) = Det(RM(X))
     /\ RM(IL!Tr2(X)) = Transpose(RM(X))
     /\ R(IL!PerpDot(a1, b1)) = PerpDot(RV(a1), RV(b1))
     /\ R(IL!Dot2(a1, b1)) = Dot(RV(a1), RV(b1))
     /\ IL!Det2(X) # 0 => InvertRel(RM(X), V("Some", <<V("Mat", [c \in 1..2 |-> [r \in 1..2 |-> Norm(IL!Adj2(X)[c][r], IL!Det2(X))]])>>))
BridgeVector == MDone =>
  /\ R(IL!Dot3(u, v)) = Dot(RV(u), RV(v))
  /\ RV(IL!Cross3(u, v)) = Cross(RV(u), RV(v))
  /\ RV(IL!Add3(u, v)) = VAdd(RV(u), RV(v))
  /\ RV(IL!Sub3(u, v)) = VSub(RV(u), RV(v))
  /\ RV(IL!Scale3(u, -2)) = VScale(RV(u), R(-2))
  /\ V("Vec", RV(IL!Lerp3(u, v, 3))) = LinFn("lerp", "Q", <<V("Vec", RV(u)), V("Vec", RV(v)), Sv(R(3))>>)
  \* homogeneous constructors                                                                            (C01)
  /\ V("Mat", RM(IL!Translation2(<<u[1], u[2]>>))) = LinFn("from_translation", "Q", <<V("Vec", <<R(u[1]), R(u[2])>>)>>)
  /\ V("Mat", RM(IL!Scaling2(u[1], u[2]))) = LinFn("from_nonuniform_scale", "Q", <<Sv(R(u[1])), Sv(R(u[2]))>>)
BridgeQuaternion == QDone =>
  /\ RV(IL!QMul(p, q)) = QMul(RV(p), RV(q))
  /\ RV(IL!QConj(p)) = QConj(RV(p))
  /\ RV(IL!QAdd(p, q)) = VAdd(RV(p), RV(q))
  /\ R(IL!Norm2(p)) = Mag2(RV(p))
  \* for n = 1 IntLaws!QMat and IntLaws!QRot are the spec's QMat3 and QRot; for a rational unit quaternion x/m they are the
  \* spec's operators scaled by m^2                                                                      (C04, C05)
  /\ IsSquareNorm(p) =>
       /\ QMat3(UnitOf(p)) = [c \in 1..3 |-> [r \in 1..3 |-> Norm(IL!QMat(p, IL!Norm2(p))[c][r], IL!Norm2(p))]]
       /\ QRot(UnitOf(p), RV(u)) = [i \in 1..3 |-> Norm(IL!QRot(p, u, IL!Norm2(p))[i], IL!Norm2(p))]
  \* Decomposed action: s R x + d                                                                        (C08)
  /\ IsSquareNorm(p) =>
       TfPoint(DecV(R(3), V("Quat", UnitOf(p)), RV(v)), RV(u))
         = [i \in 1..3 |-> Norm(IL!Apply(3, IL!QMat(p, IL!Norm2(p)), IL!Scale3(v, IL!Norm2(p)), u)[i], IL!Norm2(p))]
\* the scalar operators of IntPoly are the entries of the tuple operators of IntLaws (flat column-major argument lists)
FlatM(M) == <<M[1][1], M[1][2], M[1][3], M[2][1], M[2][2], M[2][3], M[3][1], M[3][2], M[3][3]>>
BridgeScalarMatrix == MDone =>
  LET a == FlatM(A)  b == FlatM(B)  m == FlatM(IL!MulMM3(A, B)) IN
  /\ IP!D(a[1], a[2], a[3], a[4], a[5], a[6], a[7], a[8], a[9]) = IL!Det3(A)
  /\ \A c \in 1..3, r \in 1..3 : IP!S3(A[1][r], A[2][r], A[3][r], B[c][1], B[c][2], B[c][3]) = IL!MulMM3(A, B)[c][r]
  /\ \A i \in 1..3 : IP!S3(A[1][i], A[2][i], A[3][i], u[1], u[2], u[3]) = IL!MulMV3(A, u)[i]
  /\ IP!S3(u[1], u[2], u[3], v[1], v[2], v[3]) = IL!Dot3(u, v)
  \* one row of the Decomposed law is the corresponding component of IntLaws!Apply
  /\ \A i \in 1..3 : IP!S3(A[1][i], A[2][i], A[3][i], u[1] * 3, u[2] * 3, u[3] * 3) + v[i] = IL!Apply(3, A, v, u)[i]
BridgeScalarQuaternion == QDone =>
  LET n == IL!Norm2(p)  M == IL!QMat(p, n) IN
  /\ <<IP!Q1(p[1], p[2], p[3], p[4], q[1], q[2], q[3], q[4]), IP!Q2(p[1], p[2], p[3], p[4], q[1], q[2], q[3], q[4]),
        IP!Q3(p[1], p[2], p[3], p[4], q[1], q[2], q[3], q[4]), IP!Q4(p[1], p[2], p[3], p[4], q[1], q[2], q[3], q[4])>> = IL!QMul(p, q)
  /\ IP!N(p[1], p[2], p[3], p[4]) = n
  /\ << <<IP!E11(p[1], p[2], p[3], p[4], n), IP!E12(p[1], p[2], p[3], p[4], n), IP!E13(p[1], p[2], p[3], p[4], n)>>,
         <<IP!E21(p[1], p[2], p[3], p[4], n), IP!E22(p[1], p[2], p[3], p[4], n), IP!E23(p[1], p[2], p[3], p[4], n)>>,
         <<IP!E31(p[1], p[2], p[3], p[4], n), IP!E32(p[1], p[2], p[3], p[4], n), IP!E33(p[1], p[2], p[3], p[4], n)>> >> = M
  /\ <<IP!R1(p[1], p[2], p[3], p[4], u[1], u[2], u[3], n), IP!R2(p[1], p[2], p[3], p[4], u[1], u[2], u[3], n),
        IP!R3(p[1], p[2], p[3], p[4], u[1], u[2], u[3], n)>> = IL!QRot(p, u, n)
  /\ IL!QConj(p) = <<p[1], 0 - p[2], 0 - p[3], 0 - p[4]>>
=============================================================================
