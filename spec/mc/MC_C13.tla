------------------------------- MODULE MC_C13 -------------------------------
(* Design check for C13: the modular-arithmetic clauses on exact rationals   *)
(* (all multiples of 1/8 turn in [-3, 3] turns, in quarter turns: -12..12    *)
(* step 1/2), the transcribed default methods of `Angle` against the         *)
(* contracts, the trigonometric wiring over the table, and the regression:   *)
(* the pre-fix bisect formula must be rejected by the contract.              *)
EXTENDS Fn
VARIABLES a, b, phase
vars == <<a, b, phase>>
Grid == {Norm(i, 2) : i \in -24..24}
Init == a = Zero /\ b = Zero /\ phase = "a"
Next == \/ phase = "a" /\ \E x \in Grid : a' = x /\ phase' = "b" /\ UNCHANGED b
        \/ phase = "b" /\ \E y \in Grid : b' = y /\ phase' = "done" /\ UNCHANGED a
Spec == Init /\ [][Next]_vars
Done == phase = "done"
AngQ(q) == V("Rad", AQuarters(q))
Rel1(op, x, r) == GeoRel(op, "Q", "m", <<AngQ(x)>>, AngQ(r))
ImplMeetsContract == Done =>
  /\ Rel1("normalize_ang", a, FnNormalize(a))
  /\ Rel1("normalize_signed", a, FnNormalizeSigned(a))
  /\ Rel1("opposite", a, FnOpposite(a))
  /\ GeoRel("bisect", "Q", "m", <<AngQ(a), AngQ(b)>>, AngQ(FnBisect(a, b)))
  /\ RGe(FnNormalize(a), Zero) /\ RLe(FnNormalize(a), R(4))
  /\ RGe(FnNormalizeSigned(a), R(-2)) /\ RLe(FnNormalizeSigned(a), R(2))
  /\ FnOpposite(a) = FnNormalize(RAdd(a, R(2)))
\* bisect is symmetric up to a turn unless the two directions are opposite
LawBisect == Done =>
  LET m1 == FnBisect(a, b)  m2 == FnBisect(b, a)  d == FnNormalizeSigned(RSub(b, a)) IN
  (d # R(2) /\ d # R(-2)) => FnNormalize(RSub(m1, m2)) = Zero
\* arithmetic on the underlying number, full turn and its divisions
LawArith == Done =>
  /\ AngFn("add", <<AngQ(a), AngQ(b)>>) = AngQ(RAdd(a, b)) /\ AngFn("sub", <<AngQ(a), AngQ(b)>>) = AngQ(RSub(a, b))
  /\ AngFn("neg", <<AngQ(a)>>) = AngQ(RNeg(a)) /\ AngFn("mul_s", <<AngQ(a), Sv(b)>>) = AngQ(RMul(a, b))
  /\ (b # Zero => AngFn("div_aa", <<AngQ(a), AngQ(b)>>) = Sv(RDiv(a, b)) /\ AngFn("rem", <<AngQ(a), AngQ(b)>>) = AngQ(RRem(a, b)))
  /\ \A k \in {2, 3, 4, 6} : AScale(AQuarters(Norm(4, k)), R(k)) = AQuarters(R(4))
  /\ AngFn("to_deg", <<AngQ(a)>>).c = AngQ(a).c /\ AngFn("to_rad", <<V("Deg", AQuarters(a))>>) = AngQ(a)
\* the old formula (1.5a - 0.5b) is NOT a bisector: there are grid points where the contract rejects it
ASSUME \E x \in Grid, y \in Grid : ~GeoRel("bisect", "Q", "m", <<AngQ(x), AngQ(y)>>, AngQ(FnBisectOld(x, y)))
\* trigonometric wiring: exact values at the table angles, principal inverses
TrigAngles == {<<an, 1, k, 0>> : an \in -4..4, k \in -2..2}
ASSUME \A g \in TrigAngles :
  /\ RAdd(RSq(Sin(g)), RSq(Cos(g))) = One
  /\ Sin(ANeg(g)) = RNeg(Sin(g)) /\ Cos(ANeg(g)) = Cos(g)
  /\ Sin(AAdd(g, AQuarters(R(4)))) = Sin(g) /\ Cos(AAdd(g, AQuarters(R(2)))) = RNeg(Cos(g))
  /\ Sin(AAdd(g, AQuarters(R(1)))) = Cos(g)
  /\ (InRangeQ(g, R(-1), R(1)) /\ ACmp(g, R(-1)) = 1 /\ ACmp(g, R(1)) = -1) => (AsinIs(g, Sin(g)) /\ AtanIs(g, Tan(g)))
  /\ (ACmp(g, R(0)) = 1 /\ ACmp(g, R(2)) = -1) => AcosIs(g, Cos(g))
  /\ (ACmp(g, R(-2)) = 1 /\ ACmp(g, R(2)) = -1) => Atan2Is(g, RMul(Sin(g), R(3)), RMul(Cos(g), R(3)))
ASSUME Sin(<<0, 1, 1, 0>>) = <<4, 5>> /\ Cos(<<0, 1, 1, 0>>) = <<3, 5>> /\ Sin(<<1, 1, 0, 0>>) = One /\ Cos(<<2, 1, 0, 0>>) = R(-1)
       /\ Sin(<<0, 1, 0, 1>>) = <<760, 761>> /\ Sin(<<0, 1, 2, 0>>) = <<24, 25>> /\ Cos(<<0, 1, 2, 0>>) = <<-7, 25>>
=============================================================================
