SPECIFICATION Spec
CONSTANTS N = 3
 QUICK = FALSE
INVARIANTS LawVectorSpace LawInner LawCross LawIntegerKind LawAffine
CHECK_DEADLOCK FALSE
