SPECIFICATION Spec
CONSTANTS N = 2
 QUICK = FALSE
INVARIANTS LawDet ImplMeetsContract LawTranspose LawSwaps LawPanics
CHECK_DEADLOCK FALSE
