SPECIFICATION Spec
CONSTANTS N = 3
 QUICK = TRUE
INVARIANTS LawDet ImplMeetsContract LawTranspose LawSwaps LawPanics
CHECK_DEADLOCK FALSE
