------------------------------- MODULE MC_Pos -------------------------------
(* Design checks for the position properties: C16 (views as addressing      *)
(* functions into one canonical component sequence), C17 (operand forms do  *)
(* not enter any contract; iterator folds), C18 (a compound comparison is   *)
(* the conjunction over positions: every pattern of "position i within      *)
(* tolerance"), C19 (cast is all-or-nothing: every failure pattern).        *)
EXTENDS Fn
VARIABLES ty, pat, i, j, phase
vars == <<ty, pat, i, j, phase>>
Types == {"Vector1", "Vector2", "Vector3", "Vector4", "Point1", "Point2", "Point3", "Matrix2", "Matrix3", "Quaternion"}
NC(t) == CASE t \in {"Vector1", "Point1"} -> 1 [] t \in {"Vector2", "Point2"} -> 2 [] t \in {"Vector3", "Point3"} -> 3
           [] t \in {"Vector4", "Matrix2", "Quaternion"} -> 4 [] t = "Matrix3" -> 9
Val(t) == FromCanon(TypeTag(t), [x \in 1..NC(t) |-> R(10 + x)])
Init == ty = "Vector1" /\ pat = <<>> /\ i = 0 /\ j = 0 /\ phase = "ty"
Next == \/ phase = "ty" /\ \E t \in Types : ty' = t /\ phase' = "pat" /\ UNCHANGED <<pat, i, j>>
        \/ phase = "pat" /\ \E p \in [1..NC(ty) -> BOOLEAN] : pat' = p /\ phase' = "ij" /\ UNCHANGED <<ty, i, j>>
        \/ phase = "ij" /\ \E a \in -1..(NC(ty) + 1), b \in 0..NC(ty) : i' = a /\ j' = b /\ phase' = "done" /\ UNCHANGED <<ty, pat>>
Spec == Init /\ [][Next]_vars
Done == phase = "done"
X == Val(ty)
\* ---- C16: every view is the same sequence; writes through one view are visible through all; out of range panics
LawViews == Done =>
  /\ FromCanon(X.t, Canon(X)) = X
  /\ ViewFn("view_read", "Q", <<X>>) = TupS(Canon(X))
  /\ ViewFn("view_from", "Q", <<Tv(ty), Tv("array")>> \o [x \in 1..NC(ty) |-> Sv(R(10 + x))]) = X
  /\ LET w == ViewFn("view_write", "Q", <<X, Tv("index"), Iv(i), Sv(R(99))>>) IN
     IF InRange(i, NC(ty)) THEN /\ Canon(w)[i + 1] = R(99) /\ \A x \in 1..NC(ty) : x # i + 1 => Canon(w)[x] = Canon(X)[x]
                                /\ ViewFn("view_read", "Q", <<w>>).c[i + 1] = Sv(R(99))
     ELSE w = PanicV
  /\ (ty = "Quaternion" => /\ X.c[1] = R(14)                                         \* Quaternion::new takes the scalar FIRST
                           /\ Canon(X) = <<R(11), R(12), R(13), R(14)>>                 \* arrays, tuples, indices put it LAST
                           /\ LinFn("quat_new", "Q", <<Sv(R(14)), Sv(R(11)), Sv(R(12)), Sv(R(13))>>) = X)
  /\ (X.t \in {"Vec", "Pt"} => LinFn("index", "Q", <<X, Iv(i)>>) = (IF InRange(i, NC(ty)) THEN Sv(X.c[i + 1]) ELSE PanicV))
  /\ (X.t = "Mat" => \A c \in 1..Len(X.c) : \A r \in 1..Len(X.c) : Canon(X)[(c - 1) * Len(X.c) + r] = X.c[c][r])   \* column-major
\* ---- C17: the operand form is not an input of any contract; Sum / Product are left folds from zero() / one()
Forms == {"vv", "rv", "vr", "rr", "as", "m", "v", "r"}
LawForms == (Done /\ X.t \in {"Vec", "Mat", "Quat"} /\ i = 0 /\ \A x \in 1..NC(ty) : pat[x]) =>
  LET Y == MapC(X, LAMBDA c : RAdd(c, R(j)))  s == LinFn("add", "Q", <<X, Y>>) IN
  /\ \A f1, f2 \in Forms : Rel("add", "Q", f1, <<X, Y>>, s) = Rel("add", "Q", f2, <<X, Y>>, s)
  /\ \A f1 \in Forms : Rel("add", "Q", f1, <<X, Y>>, s) /\ ~Rel("add", "Q", f1, <<X, Y>>, X)
  /\ LinFn("iter_sum", "Q", <<Tv(ty), X, Y, X>>).c = LinFn("add", "Q", <<LinFn("add", "Q", <<LinFn("add", "Q", <<ZeroOf(ty), X>>), Y>>), X>>).c
  /\ LinFn("iter_sum", "Q", <<Tv(ty)>>) = ZeroOf(ty)
  /\ (X.t = "Mat" => LinFn("iter_product", "Q", <<Tv(ty), X, Y>>).c = MulMM(MulMM(Id(Len(X.c)), X.c), Y.c))
  /\ (X.t = "Mat" => LinFn("iter_product", "Q", <<Tv(ty)>>).c = Id(Len(X.c)))
\* ---- C18: pattern pat[x] = "position x is within tolerance"; the pair differs by 1/16 (inside 1/8) or 1/4 (outside)
Yp == FromCanon(X.t, [x \in 1..NC(ty) |-> RAdd(R(10 + x), IF pat[x] THEN <<1, 16>> ELSE <<1, 4>>)])
LawApprox == (Done /\ i = 0 /\ j = 0) =>
  LET verdicts == TupB(pat)  all == \A x \in 1..NC(ty) : pat[x]
      good == V("Tup", <<Bv(all), verdicts>>)  bad == V("Tup", <<Bv(~all), verdicts>>) IN
  /\ ApproxRel("abs_diff_eq", "Q", "m", <<X, Yp, Sv(<<1, 8>>)>>, good)
  /\ ~ApproxRel("abs_diff_eq", "Q", "m", <<X, Yp, Sv(<<1, 8>>)>>, bad)
  /\ ApproxRel("abs_diff_eq", "Q", "m", <<Yp, X, Sv(<<1, 8>>)>>, good)                       \* symmetric
  /\ ApproxRel("abs_diff_eq", "Q", "m", <<X, X, Sv(Zero)>>, V("Tup", <<Bv(TRUE), TupB([x \in 1..NC(ty) |-> TRUE])>>))   \* reflexive
  /\ ApproxRel("ulps_eq", "Q", "m", <<X, Yp, Sv(<<1, 8>>), Iv(4)>>, good)
  /\ ApproxRel("relative_eq", "Q", "m", <<X, Yp, Sv(<<1, 8>>), Sv(Zero)>>, good)
\* ---- C19: pat[x] = "the scalar cast of component x succeeds"
LawCast == (Done /\ i = 0 /\ j = 0) =>
  LET n == NC(ty)  all == \A x \in 1..n : pat[x]
      args == <<Tv(ty), Tv("i64"), Tv("u8")>> \o [x \in 1..n |-> Tv(IF pat[x] THEN "one" ELSE "neg1")]
      eqs == IF all THEN TupB([x \in 1..n |-> TRUE]) ELSE V("Tup", <<>>) IN
  /\ CastRel(args, V("Tup", <<Bv(all), TupB(pat), eqs>>))
  /\ ~CastRel(args, V("Tup", <<Bv(~all), TupB(pat), eqs>>))                                  \* all-or-nothing
  /\ (all => ~CastRel(args, V("Tup", <<Bv(TRUE), TupB(pat), TupB([x \in 1..n |-> x # 1])>>)))   \* component faithful
=============================================================================
