------------------------------- MODULE Trace -------------------------------
(* Trace validation: every call recorded from the real crate must be a step *)
(* the abstract machine allows.  Arguments are read from the specification's*)
(* OWN register file, never from the log; the logged result is the witness  *)
(* for the contract.  One action per trace line, so the search is linear.   *)
(*                                                                          *)
(* The contract is evaluated as a state invariant on (prev, reg, l) rather  *)
(* than inside the action: TLC memoises argument expressions only when it   *)
(* evaluates state predicates, and the deeper geometric contracts are       *)
(* exponentially slow without that (measured: 60 s -> 10 ms per call).      *)
EXTENDS Api, Json, IOUtils

VARIABLES reg,   \* the machine's register file
          prev,  \* the register file before the last step (the arguments of the last call)
          l      \* next trace line to consume
vars == <<reg, prev, l>>
NREG == 20
Rec == ndJsonDeserialize(IOEnv.TRACE)
Nil == [t |-> "Nil", c |-> <<>>]

TraceInit == l = 1 /\ reg = [i \in 1..NREG |-> Nil] /\ prev = reg

TraceReset == /\ l <= Len(Rec) /\ Rec[l].ev = "reset"
              /\ reg' = [i \in 1..NREG |-> Rec[l].regs[i]]
              /\ prev' = reg
              /\ l' = l + 1

TraceCall == /\ l <= Len(Rec) /\ Rec[l].ev = "call"
             /\ reg' = [reg EXCEPT ![Rec[l].d] = Rec[l].res]
             /\ prev' = reg
             /\ l' = l + 1

TraceNext == TraceReset \/ TraceCall
TraceSpec == TraceInit /\ [][TraceNext]_vars

\* the step that led to this state was allowed by the contract of its op
Conforms == l > 1 => LET e == Rec[l - 1] IN
              e.ev = "call" => \/ Rel(e.op, e.sc, e.f, [i \in 1..Len(e.a) |-> prev[e.a[i]]], e.res)
                               \/ Print(<<"REJECTED", l - 1, ToJson(e)>>, FALSE)

\* accepted iff every line was consumed (a contract failure is reported as a violation of Conforms)
Accepted == LET d == TLCGet("stats").diameter IN
            IF d - 1 = Len(Rec) THEN TRUE
            ELSE Print(<<"REJECTED", d, ToJson(Rec[d])>>, FALSE)
=============================================================================
