------------------------------- MODULE Trace -------------------------------
(* Trace validation: every call recorded from the real crate must be a step *)
(* the abstract machine allows.  Arguments are read from the specification's*)
(* OWN register file, never from the log; the logged result is the witness  *)
(* for the contract.  One action per trace line, so the search is linear.   *)
EXTENDS Api, Json, IOUtils

VARIABLES reg, l
vars == <<reg, l>>
NREG == 8
Rec == ndJsonDeserialize(IOEnv.TRACE)
Nil == [t |-> "Nil", c |-> <<>>]

ArgVals(as) == [i \in 1..Len(as) |-> reg[as[i]]]

TraceInit == l = 1 /\ reg = [i \in 1..NREG |-> Nil]

TraceReset == /\ l <= Len(Rec) /\ Rec[l].ev = "reset"
              /\ reg' = [i \in 1..NREG |-> Rec[l].regs[i]]
              /\ l' = l + 1

TraceCall == /\ l <= Len(Rec) /\ Rec[l].ev = "call"
             /\ LET e == Rec[l] IN
                  /\ Rel(e.op, e.sc, ArgVals(e.a), e.res)
                  /\ reg' = [reg EXCEPT ![e.d] = e.res]
             /\ l' = l + 1

TraceNext == TraceReset \/ TraceCall
TraceSpec == TraceInit /\ [][TraceNext]_vars

\* accepted iff every line was consumed; otherwise report the first unmatched line
Accepted == LET d == TLCGet("stats").diameter IN
            IF d - 1 = Len(Rec) THEN TRUE
            ELSE Print(<<"REJECTED", d, ToJson(Rec[d])>>, FALSE)
=============================================================================
