#!/bin/bash
# usage: bin/coverage.sh
# Diagnostic (not a registered check): which source regions of /repo/src do the conformance
# programs actually execute?  Builds the harness with -C instrument-coverage (nightly, whose
# llvm-tools match the profile format) in a scratch directory OUTSIDE /verif and /repo,
# re-executes the program sets left by the latest run of every check (work/Cxx/programs.ndjson),
# and writes coverage/cgmath_coverage.txt: the per-file summary and every source line of
# cgmath that no conformance program reached.  The scratch directory is removed afterwards.
set -u
S=${COV_SCRATCH:-/var/tmp/cgv_cov}
T=$(dirname "$(rustc +nightly --print target-libdir)")/bin
[ -x "$T/llvm-cov" ] || { echo "llvm-tools not found on the nightly toolchain"; exit 2; }
rm -rf "$S"; mkdir -p "$S/prof" /verif/coverage
cd /verif/harness || exit 2
LLVM_PROFILE_FILE="$S/prof/build_%p.profraw" CARGO_TARGET_DIR="$S/target" \
  RUSTFLAGS="-C instrument-coverage --cfg cgmath_verif --check-cfg cfg(cgmath_verif)" \
  cargo +nightly build --release --offline 2>&1 | grep -E "^error|Finished" || exit 2
n=0
for d in /verif/work/C*/; do
  p=$(basename "$d")
  [ -f "$d/programs.ndjson" ] || continue
  LLVM_PROFILE_FILE="$S/prof/$p.profraw" "$S/target/release/cgv" exec --in "$d/programs.ndjson" --out "$S/trace.ndjson" >/dev/null 2>&1
  n=$((n + 1))
done
rm -f "$S"/prof/build_*.profraw
"$T/llvm-profdata" merge -sparse "$S"/prof/C*.profraw -o "$S/all.profdata" || exit 2
out=/verif/coverage/cgmath_coverage.txt
{
  echo "# cgmath source coverage by the conformance programs of $n checks (bin/coverage.sh, $(git -C /repo rev-parse --short HEAD))"
  echo "# generic code counts as reached when any instantiation is"
  "$T/llvm-cov" report "$S/target/release/cgv" -instr-profile="$S/all.profdata" --sources /repo/src 2>/dev/null | sed 's/   */  /g'
  echo
  echo "# source lines never reached"
  "$T/llvm-cov" show "$S/target/release/cgv" -instr-profile="$S/all.profdata" --sources /repo/src 2>/dev/null \
    | grep -E "^/repo/src|^ +[0-9]+\| +0\|"
} > "$out"
rm -rf "$S"
rm -f /repo/*.profraw /verif/harness/*.profraw
tail -n +1 "$out" | head -60
