#!/bin/bash
# Applies every seeded change under seeded/ to the repository in turn, runs the check of its property, undoes it.
# Prints one line per change: CAUGHT / MISSED.  (Nothing else may use that repository while this runs.)
# By default works on /verif and /repo; with REGRESS_ROOT=<dir> on a scratch copy laid out as <dir>/verif and
# <dir>/repo (a git worktree of /repo; <dir>/verif/harness/Cargo.toml pointing at it), so that /repo stays free.
V=${REGRESS_ROOT:+$REGRESS_ROOT/verif}; V=${V:-/verif}
R=${REGRESS_ROOT:+$REGRESS_ROOT/repo}; R=${R:-/repo}
cd $V || exit 2
for d in ${@:-seeded/*/}; do
  id=$(basename $d); prop=$(python3 -c "import json;print(json.load(open('/verif/seeded/$id/meta.json'))['property'])")
  git -C $R apply /verif/seeded/$id/patch.diff || { echo "$id PATCH-FAILED"; continue; }
  out=$(timeout 1500 bin/check $prop 2>&1 | grep -v WARNING | head -3)
  git -C $R checkout -- .
  if echo "$out" | grep -q "^VIOLATION property=$prop"; then echo "$id CAUGHT"; else echo "$id MISSED: $out"; fi
done
git -C $R status --short | grep -v '^??'
