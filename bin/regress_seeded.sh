#!/bin/bash
# Applies every seeded change under seeded/ to /repo in turn, runs the check of its property, undoes it.
# Prints one line per change: CAUGHT / MISSED.  (Nothing else may use /repo while this runs.)
cd /verif
for d in ${@:-seeded/*/}; do
  id=$(basename $d); prop=$(python3 -c "import json;print(json.load(open('$d/meta.json'))['property'])")
  git -C /repo apply /verif/$d/patch.diff || { echo "$id PATCH-FAILED"; continue; }
  out=$(timeout 1500 bin/check $prop 2>&1 | grep -v WARNING | head -3)
  git -C /repo checkout -- .
  if echo "$out" | grep -q "^VIOLATION property=$prop"; then echo "$id CAUGHT"; else echo "$id MISSED: $out"; fi
done
git -C /repo status --short | grep -v '^??'
