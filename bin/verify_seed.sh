#!/bin/bash
# usage: bin/verify_seed.sh <worktree> <name> <property> [cargo feature args]
# confirms in the scratch worktree: (1) with the change the existing suite passes and the demo fails,
# (2) without the change the demo passes; then stores patch, demo and meta.json under seeded/<name>/
wt=$1; name=$2; prop=$3; shift 3; feat="$*"
out=/verif/seeded/$name; mkdir -p $out
cd $wt || exit 2
git apply --check -R _seed/patch.diff 2>/dev/null || { git checkout -- . ; git apply _seed/patch.diff || exit 2; }
cp _seed/demo.rs tests/seed_demo.rs
with=$(cargo test --offline --no-fail-fast $feat 2>&1 | grep -E "^test result|^test .* FAILED|Running")
suite_fail=$(echo "$with" | grep "FAILED" | grep -v "^test result" | wc -l)
demo_with=$(cargo test --offline $feat --test seed_demo 2>&1 | grep "^test result" | head -1)
mv tests/seed_demo.rs /tmp/seed_demo_$name.rs
base_with=$(cargo test --offline --no-fail-fast $feat 2>&1 | grep "^test result" | grep -v " 0 failed" | wc -l)
mv /tmp/seed_demo_$name.rs tests/seed_demo.rs
git apply -R _seed/patch.diff
demo_without=$(cargo test --offline $feat --test seed_demo 2>&1 | grep "^test result" | head -1)
git apply _seed/patch.diff
cp _seed/patch.diff $out/patch.diff; cp _seed/demo.rs $out/demo.rs; cp _seed/notes.md $out/notes.md 2>/dev/null
python3 - "$out" "$prop" "$demo_with" "$demo_without" "$base_with" "$feat" <<'PY'
import json,sys
out,prop,dw,dwo,bw,feat=sys.argv[1:7]
json.dump({"property":prop,"features":feat,"existing_suite_targets_failing_with_change":int(bw),
 "demo_with_change":dw,"demo_without_change":dwo,
 "confirmed":(int(bw)==0 and "FAILED" in dw and "ok." in dwo)},open(out+"/meta.json","w"),indent=1)
print(open(out+"/meta.json").read())
PY
