#!/usr/bin/env python3
"""Regenerates MANIFEST.json from bin/props.py (single source of truth for what is claimed)."""
import json, os, sys
ROOT = os.path.dirname(os.path.dirname(os.path.abspath(__file__)))
sys.path.insert(0, os.path.join(ROOT, "bin"))
from props import PROPS, META

ids = [json.loads(l)["id"] for l in open(os.path.join(ROOT, "properties.jsonl"))]
checks, na = [], []
for pid in ids:
    if pid in PROPS and not PROPS[pid].get("disabled"):
        m = META.get(pid, {})
        checks.append({
            "property_id": pid,
            "quick_cmd": "bin/check %s --tier quick" % pid,
            "thorough_cmd": "bin/check %s --tier thorough" % pid,
            "evidence_file": "/verif/evidence/%s.json" % pid,
            "replay_cmd_template": "bin/check %s --replay {path}" % pid,
            "engine": "tla-machine",
            "level_claimed": {
                "category": "model_checking",
                "text": m.get("text", "TLC checks the TLA+ contracts and laws of this property on enumerated domains of the specification; "
                        "every call recorded from the real crate (exact rational scalar, f32/f64, integer types) is validated by TLC against the same contracts."),
                "design_ref": m.get("design_ref", "DESIGN.md section 4, " + pid),
            },
            "level_note": m.get("note", "Trusted: TLC + CommunityModules Json/IOUtils; harness exact scalar Q, JSON codec and float snapping; rustc. "
                           "Bounded: the specification is explored on finite domains and the code on a finite, seeded, generic-position sample."),
            "technique": m.get("technique", "TLA+ abstract-machine spec; TLC design check + TLC trace validation of recorded calls"),
        })
    else:
        na.append({"property_id": pid, "reason": META.get(pid, {}).get("na_reason", "check not built yet in this round; the specification module for it is still being written")})
man = {
    "version": 1,
    "setup_cmd": "bin/check --setup",
    "hooks": {
        "guard": "cgmath_verif",
        "enable": "harness/.cargo/config.toml passes --cfg cgmath_verif to rustc; no hook is needed (sequential value library, every public call returns its complete abstract state), so /repo carries no guarded code",
        "baseline_off_cmd": "cd /repo && cargo test --workspace --no-fail-fast --offline",
        "source_commits": [],
        "add_only": True,
    },
    "engines": [{"name": "tla-machine", "path": "spec/ + harness/ + bin/check", "serves_properties": [c["property_id"] for c in checks],
                 "kind_free_text": "explicit TLA+ specification of cgmath as an abstract register machine, checked with TLC; conformance by TLC trace validation of calls recorded from the real crate and by replay of TLC-generated behaviours"}],
    "checks": checks,
    "not_applicable": na,
    "notes": "See DESIGN.md. Exit codes: 0 held, 1 VIOLATION (with replay file), 2 tool error.",
}
json.dump(man, open(os.path.join(ROOT, "MANIFEST.json"), "w"), indent=1)
print("claimed:", [c["property_id"] for c in checks])
