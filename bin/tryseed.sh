#!/bin/bash
# usage: bin/tryseed.sh <patch.diff> <Cxx> [more Cxx...] : apply a seeded change to /repo, run the checks, undo
set -u
patch=$1; shift
cd /repo && git status --short | grep -v '^??' | grep . && { echo "repo not clean"; exit 2; }
git -C /repo apply "$patch" || { echo "patch does not apply"; exit 2; }
for p in "$@"; do (cd /verif && timeout 1200 bin/check $p 2>&1 | grep -v WARNING | head -4); done
git -C /repo checkout -- . 
git -C /repo status --short | grep -v '^??'
