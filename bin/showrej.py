#!/usr/bin/env python3
import json,glob,sys
pat=sys.argv[1]
seen=set()
for f in sorted(glob.glob('replays/%s_*.json'%pat)):
    r=json.load(open(f))
    i=r['first_unmatched_line']
    if not r['trace']: print(f, r['tlc_report'][:1500]); continue
    e=r['trace'][i-1]
    print(f, i, e.get('op'), e.get('sc'))
    for l in r['trace'][:i]:
        print('   ', json.dumps(l)[:int(sys.argv[2]) if len(sys.argv)>2 else 500])
    errs=[x for x in r['tlc_report'].split('\n') if x.startswith('Error')]
    print('   ', errs[:3])
