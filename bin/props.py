"""Per-property configuration of bin/check.
profiles : driver profiles (harness/src/driver*.rs) whose programs are executed and validated
count    : programs per profile (quick, thorough)
mc       : TLC design-check configs under spec/mc
gen      : TLC generation configs under spec/mc (behaviours replayed into the real crate)
"""
PROPS = {
    "C01": {"profiles": ["C01"], "count": (400, 6000), "mc": [], "gen": []},
    "C02": {"profiles": ["C02"], "count": (400, 6000), "mc": [], "gen": []},
    "C03": {"profiles": ["C03"], "count": (400, 6000), "mc": [], "gen": []},
    "C04": {"profiles": ["C04"], "count": (400, 6000), "mc": [], "gen": []},
    "C12": {"profiles": ["C12"], "count": (400, 6000), "mc": [], "gen": []},
}

META = {}
