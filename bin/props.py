"""Per-property configuration of bin/check.
profiles : driver profiles (harness/src/driver*.rs) whose programs are executed and validated
count    : programs per profile (quick, thorough)
mc       : TLC design-check configs under spec/mc
gen      : TLC generation configs under spec/mc (behaviours replayed into the real crate)
"""
PROPS = {
    "C01": {"profiles": ["C01"], "count": (400, 6000), "mc": [], "gen": []},
    "C02": {"profiles": ["C02"], "count": (400, 6000), "mc": [], "gen": []},
    "C03": {"profiles": ["C03"], "count": (400, 6000), "mc": [], "gen": []},
    "C04": {"profiles": ["C04"], "count": (400, 6000), "mc": [], "gen": []},
    "C05": {"profiles": ["C05"], "count": (300, 5000), "mc": [], "gen": [{"name": "Gen_C05", "has_thorough": True, "workers": 8}]},
    "C06": {"profiles": ["C06"], "count": (300, 5000), "mc": [], "gen": []},
    "C07": {"profiles": ["C07"], "count": (300, 5000), "mc": [], "gen": []},
    "C08": {"profiles": ["C08"], "count": (300, 5000), "mc": [], "gen": []},
    "C09": {"profiles": ["C09"], "count": (300, 5000), "mc": [], "gen": []},
    "C10": {"profiles": ["C10"], "count": (300, 5000), "mc": [], "gen": []},
    "C11": {"profiles": ["C11"], "count": (300, 5000), "mc": [], "gen": []},
    "C12": {"profiles": ["C12"], "count": (400, 6000), "mc": [], "gen": []},
    "C13": {"profiles": ["C13"], "count": (300, 5000), "mc": [], "gen": []},
    "C14": {"profiles": ["C14"], "count": (300, 5000), "mc": [], "gen": []},
    "C15": {"profiles": ["C15"], "count": (300, 5000), "mc": [], "gen": []},
    "C16": {"profiles": ["C16"], "count": (150, 3000), "mc": [], "gen": [{"name": "Gen_C16"}], "exhaustive": True},
    "C17": {"profiles": ["C17", "C13", "C06"], "count": (500, 8000), "mc": [], "gen": []},
    "C18": {"profiles": ["C18"], "count": (300, 4000), "mc": [], "gen": []},
    "C19": {"profiles": ["C19"], "count": (1500, 20000), "mc": [], "gen": []},
    "C20": {"profiles": ["C20"], "count": (400, 4000), "mc": [], "gen": []},
}

META = {}
