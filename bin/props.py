"""Per-property configuration of bin/check.
profiles : driver profiles (harness/src/driver*.rs) whose programs are executed and validated
count    : programs per profile (quick, thorough)
mc       : TLC design-check configs under spec/mc
gen      : TLC generation configs under spec/mc (behaviours replayed into the real crate)
"""
PROPS = {
    "C01": {"profiles": ["C01"], "count": (400, 6000), "mc": [{"name": "MC_C01_n2", "module": "MC_C01", "has_thorough": True}, {"name": "MC_C01_n3", "module": "MC_C01", "has_thorough": True}, {"name": "MC_C01_n4", "module": "MC_C01", "has_thorough": True}], "gen": []},
    "C02": {"profiles": ["C02"], "count": (400, 6000), "mc": [{"name": "MC_C02_n2", "module": "MC_C02", "has_thorough": True}, {"name": "MC_C02_n3", "module": "MC_C02", "has_thorough": True}, {"name": "MC_C02_n4", "module": "MC_C02", "has_thorough": True}], "gen": []},
    "C03": {"profiles": ["C03"], "count": (400, 6000), "mc": [{"name": "MC_C03_n1", "module": "MC_C03", "has_thorough": True}, {"name": "MC_C03_n2", "module": "MC_C03", "has_thorough": True}, {"name": "MC_C03_n3", "module": "MC_C03", "has_thorough": True}, {"name": "MC_C03_n4", "module": "MC_C03", "has_thorough": True}], "gen": []},
    "C04": {"profiles": ["C04"], "count": (400, 6000), "mc": [{"name": "MC_C04", "has_thorough": True}], "gen": []},
    "C05": {"profiles": ["C05"], "count": (300, 5000), "mc": [], "gen": [{"name": "Gen_C05", "has_thorough": True, "workers": 8}]},
    "C06": {"profiles": ["C06"], "count": (300, 5000), "mc": [{"name": "MC_C06", "has_thorough": True}], "gen": []},
    "C07": {"profiles": ["C07"], "count": (300, 5000), "mc": [{"name": "MC_C06", "has_thorough": True}], "gen": []},
    "C08": {"profiles": ["C08"], "count": (300, 5000), "mc": [{"name": "MC_C08", "has_thorough": True}], "gen": []},
    "C09": {"profiles": ["C09"], "count": (300, 5000), "mc": [{"name": "MC_Geo_LawLook", "module": "MC_Geo", "has_thorough": True}], "gen": []},
    "C10": {"profiles": ["C10"], "count": (300, 5000), "mc": [{"name": "MC_C10", "has_thorough": True}], "gen": []},
    "C11": {"profiles": ["C11"], "count": (300, 5000), "mc": [{"name": "MC_Geo_LawMetric", "module": "MC_Geo", "has_thorough": True}], "gen": []},
    "C12": {"profiles": ["C12"], "count": (400, 6000), "mc": [{"name": "MC_C03_n1", "module": "MC_C03", "has_thorough": True}, {"name": "MC_C03_n2", "module": "MC_C03", "has_thorough": True}, {"name": "MC_C03_n3", "module": "MC_C03", "has_thorough": True}], "gen": []},
    "C13": {"profiles": ["C13"], "count": (300, 5000), "mc": [{"name": "MC_C13"}], "gen": []},
    "C14": {"profiles": ["C14"], "count": (300, 5000), "mc": [{"name": "MC_Geo_LawSlerp", "module": "MC_Geo", "has_thorough": True}], "gen": []},
    "C15": {"profiles": ["C15"], "count": (300, 5000), "mc": [{"name": "MC_Geo_LawArc", "module": "MC_Geo", "has_thorough": True}], "gen": []},
    "C16": {"profiles": ["C16"], "count": (150, 3000), "mc": [{"name": "MC_Pos_LawViews", "module": "MC_Pos"}], "gen": [{"name": "Gen_C16"}], "exhaustive": True},
    "C17": {"profiles": ["C17", "C13", "C06"], "count": (500, 8000), "mc": [{"name": "MC_Pos_LawForms", "module": "MC_Pos"}], "gen": []},
    "C18": {"profiles": ["C18"], "count": (300, 4000), "mc": [{"name": "MC_Pos_LawApprox", "module": "MC_Pos"}], "gen": []},
    "C19": {"profiles": ["C19"], "count": (1500, 20000), "mc": [{"name": "MC_Pos_LawCast", "module": "MC_Pos"}], "gen": []},
    "C20": {"profiles": ["C20"], "count": (400, 4000), "mc": [], "gen": [{"name": "MC_C20"}]},
}

META = {}
