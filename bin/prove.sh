#!/bin/bash
# usage: bin/prove.sh
# Re-proves the unbounded laws with tlapm in a scratch directory (the proofs do not depend on /repo):
#   spec/IntPoly.tla  scalar polynomial identities, typed SMT encoding (--debug oldsmt), seconds
#   spec/IntLaws.tla  tuple-level laws, default encoding, long SMT timeouts (--stretch), 10-30 minutes
# then has TLC run the bridge (mc/MC_Bridge) and writes spec/IntLaws.proved.txt.  Exit 0 iff everything is proved.
set -u
S=${PROVE_SCRATCH:-/var/tmp/cgv_prove}
rm -rf "$S"; mkdir -p "$S"
cp /verif/spec/IntPoly.tla /verif/spec/IntLaws.tla "$S"/
cd "$S" || exit 2
python3 /verif/spec/gen_intpoly.py | cmp -s - IntPoly.tla || { echo "spec/IntPoly.tla is not what gen_intpoly.py writes"; exit 2; }
r1=$(timeout 1800 tlapm --threads ${PROVE_THREADS:-8} --stretch 12 --debug oldsmt IntPoly.tla 2>&1 | grep -E "obligations (proved|failed)")
r2=$(timeout 7200 tlapm --threads ${PROVE_THREADS:-8} --stretch 24 IntLaws.tla 2>&1 | grep -E "obligations (proved|failed)")
cd /verif/spec
r3=$(JAVA_TOOL_OPTIONS="-DTLA-Library=/verif/spec -Xss1g" timeout 900 tlc -workers 4 -metadir "$S/meta" -cleanup -noGenerateSpecTE \
      -config mc/MC_Bridge.cfg mc/MC_Bridge.tla 2>&1 | grep -E "No error has been found|Error:|distinct states found" | tr '\n' ' ')
{
  echo "# bin/prove.sh $(date -u +%Y-%m-%dT%H:%MZ)  tlapm $(tlapm --version 2>&1 | head -1)"
  echo "IntPoly.tla  (tlapm --debug oldsmt): $r1"
  echo "IntLaws.tla  (tlapm --stretch 24):   $r2"
  echo "MC_Bridge    (tlc):                  $r3"
} | tee /verif/spec/IntLaws.proved.txt
rm -rf "$S"
echo "$r1" | grep -q "All .* proved" && echo "$r2" | grep -q "All .* proved" && echo "$r3" | grep -q "No error" || exit 1
